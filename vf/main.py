"""./check <ID> [quick|thorough] [--replay <file>]"""
from __future__ import annotations

import importlib
import json
import os
import sys
import traceback

from vf.engine import core
from vf.engine.core import InternalError
from vf.engine.report import Context


def main(argv):
    if not argv:
        print(__doc__)
        return 2
    prop = argv[0].upper()
    if prop == "SELFTEST":
        core.bind_repo()
        from vf import selftest
        return selftest.main()
    tier = os.environ.get("VERIF_TIER", "quick")
    replay = None
    rest = argv[1:]
    i = 0
    while i < len(rest):
        a = rest[i]
        if a in ("quick", "thorough"):
            tier = a
        elif a == "--replay":
            replay = rest[i + 1]
            i += 1
        else:
            print(f"unknown argument {a}")
            return 2
        i += 1
    if tier not in ("quick", "thorough"):
        tier = "quick"
    try:
        seed = int(os.environ.get("VERIF_SEED", "0"))
    except ValueError:
        seed = 0
    try:
        core.bind_repo()
        mod = importlib.import_module(f"vf.checks.{prop.lower()}")
        if replay is not None:
            with open(replay) as f:
                doc = json.load(f)
            res = mod.replay(doc["case"])
            if res:
                for sig, msg in res:
                    print(f"  {msg}\n    signature={core.jdump(sig)}")
                print(f"VIOLATION property={prop} replay={replay}")
                return 1
            print(f"[{prop}] replay {replay}: property holds on this case")
            return 0
        ctx = Context(prop, mod.LEVEL, tier, seed)
        mod.run(ctx)
        rc = ctx.finish(getattr(mod, "replay", None))
        return rc
    except InternalError as e:
        print(f"INTERNAL-ERROR property={prop}: {e}", file=sys.stderr)
        return 2
    except Exception as e:  # noqa
        traceback.print_exc()
        print(f"INTERNAL-ERROR property={prop}: {type(e).__name__}: {e}", file=sys.stderr)
        return 2
    finally:
        core.close_pool()


if __name__ == "__main__":
    sys.exit(main(sys.argv[1:]))
