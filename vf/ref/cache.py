"""Reference set-associative cache (hit/miss and residency only; data lives in the flat byte store)."""
from __future__ import annotations

from . import policy as pol

M = 0xFFFFFFFF


class RefCache:
    def __init__(self, index_bits, block_bits, ways, kind="wb", policy="lru", penalty=0):
        self.index_bits, self.block_bits, self.ways = index_bits, block_bits, ways
        self.kind, self.policy, self.penalty = kind, policy, penalty
        self.nsets = 1 << index_bits
        self.tags = [[None] * ways for _ in range(self.nsets)]
        self.pol = [pol.make(policy, ways) for _ in range(self.nsets)]
        self.hits = 0
        self.accesses = 0
        self.last = False
        self.events = set()

    def split(self, a):
        blk = (a & M) >> (2 + self.block_bits)
        return blk % self.nsets, blk // self.nsets

    def block_base(self, index, tag):
        return ((tag * self.nsets + index) << (2 + self.block_bits)) & M

    def block_bytes(self):
        return 4 << self.block_bits

    def access(self, a, write=False, counted=True):
        """Returns (hit, surcharge, evicted (index, tag) or None)."""
        idx, tag = self.split(a)
        ways = self.tags[idx]
        p = self.pol[idx]
        evicted = None
        if tag in ways:
            hit = True
            p.access(ways.index(tag))
        else:
            hit = False
            if not write or self.kind == "wb":
                v = p.victim()
                if ways[v] is not None:
                    evicted = (idx, ways[v])
                    self.events.add("eviction")
                ways[v] = tag
                p.access(v)
                self.events.add("fill")
        extra = 0
        if counted:
            self.accesses += 1
            self.hits += int(hit)
            self.last = hit
            if not hit:
                extra = self.penalty
                self.events.add("miss")
            else:
                self.events.add("hit")
        return hit, extra, evicted

    def resident(self):
        return {(i, t) for i, ways in enumerate(self.tags) for t in ways if t is not None}

    def key(self):
        return (tuple(tuple(w) for w in self.tags), tuple(p.key() for p in self.pol))

    def policy_state(self, idx):
        p = self.pol[idx]
        return p.ranks() if self.policy == "lru" else p.bits()
