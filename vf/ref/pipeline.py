"""Reference 5-stage stage-occupancy machine (DESIGN appendix A), independent of the implementation.

Written from the property text and the help page: one fetch per cycle, no forwarding, write-back
before decode within a cycle, decode interlock = two bubbles when a source register (!= x0) is the
destination (!= x0) of the instruction in EX or MEM, control resolved in MEM with refetch in the next
cycle, ecall held in EX until MEM and WB are empty.
"""
from __future__ import annotations

from .rv32 import BR, Fault, dest, execute, srcs


class Slot:
    __slots__ = ("pc", "ins", "opv", "res", "done")

    def __init__(self, pc, ins):
        self.pc = pc
        self.ins = ins
        self.opv = None
        self.res = None
        self.done = False

    def __repr__(self):
        return f"<{self.pc}:{self.ins[0]}>"


class PipeRef:
    def __init__(self, prog, regs, mem, hazard=True):
        self.prog = prog  # dict addr -> ins
        self.regs = regs
        self.mem = mem
        self.hazard = hazard
        self.pc = 0
        self.IF = self.ID = self.EX = self.MEM = self.WB = None  # occupants for the coming cycle
        self.stall = None  # None | [kind, remaining]
        self.out = ""
        self.exit = None
        self.retired = []  # (addr, cycle)
        self.err = None
        self.bc = self.jc = 0
        self.stalls = 0
        self.drains = 0
        self.fetches = []  # fetch addresses in order (wrong-path included)
        self.cyc = 0
        self.events = set()
        self.mem_ops = []  # (cycle, slot) for instructions that were in MEM (for the penalty clause)

    def empty(self):
        return self.IF is None and self.ID is None and self.EX is None and self.MEM is None and self.WB is None

    def finished(self):
        return self.err is not None or self.exit is not None or (self.empty() and self.pc not in self.prog)

    def cycle(self):
        """One clock cycle. Returns the address retired in this cycle or None."""
        self.cyc += 1
        cyc = self.cyc
        regs = self.regs
        stalled = self.stall is not None
        if not stalled:  # IF
            if self.pc in self.prog:
                self.IF = Slot(self.pc, self.prog[self.pc])
                self.fetches.append(self.pc)
                self.pc += 4
            else:
                self.IF = None
        ret = None
        WB = self.WB
        if WB is not None:  # WB (before ID: write-before-read)
            w = WB.res.wr
            if w and w[0] != 0:
                regs[w[0]] = w[1]
            ret = WB.pc
            self.retired.append((WB.pc, cyc))
            if WB.res.exit is not None:
                self.exit = WB.res.exit
        new = None
        ID, EX, MEM = self.ID, self.EX, self.MEM
        if ID is not None:  # ID: operands are (re-)read in every cycle spent in decode
            s = srcs(ID.ins)
            ID.opv = [regs[x] for x in s]
            if self.hazard and not stalled:
                for p in (EX, MEM):
                    if p is not None:
                        d = dest(p.ins)
                        if d and d in s:
                            new = "id"
                            break
        exit_in_ex = False
        if EX is not None and EX.ins[0] == "ecall" and not EX.done:  # EX: only ecall acts here
            if MEM is not None or WB is not None:
                if not stalled:
                    new = "ex"
            else:
                try:
                    EX.res = execute(EX.ins, EX.pc, EX.opv, regs, self.mem)
                except Fault:
                    self.err = EX.pc
                    self.events.add("fault")
                    return ret
                EX.done = True
                if EX.res.out is not None:
                    self.out += EX.res.out
                    self.events.add("print")
                exit_in_ex = EX.res.exit is not None
        redirect = None
        if MEM is not None:  # MEM: memory access + control resolution
            if MEM.ins[0] != "ecall":
                try:
                    MEM.res = execute(MEM.ins, MEM.pc, MEM.opv, regs, self.mem)
                except Fault:
                    self.err = MEM.pc
                    self.events.add("fault")
                    return ret
            if MEM.res.redirect:
                redirect = MEM.res.npc
                if MEM.ins[0] in BR:
                    self.bc += 1
                elif MEM.ins[0] == "jal":
                    self.jc += 1
            elif MEM.res.exit is not None:
                redirect = MEM.pc + 4
        # ---- advance
        ex_slot = EX
        stall = self.stall
        if not stalled and new is not None:
            self.stall = [new, 2]
            self.stalls += 1
            if new == "id":
                self.events.add("stall")
                self.WB, self.MEM, self.EX = MEM, EX, None  # ID, IF keep their slots
            else:
                self.drains += 1
                self.events.add("drain")
                self.WB, self.MEM = MEM, None  # EX, ID, IF keep
        elif stalled:
            stall[1] -= 1
            if stall[1] == 0:
                self.stall = None
                self.WB, self.MEM, self.EX, self.ID, self.IF = MEM, EX, ID, self.IF, None
            elif stall[0] == "id":
                self.WB, self.MEM, self.EX = MEM, EX, None
            else:
                self.WB, self.MEM = MEM, None
        else:
            self.WB, self.MEM, self.EX, self.ID, self.IF = MEM, EX, ID, self.IF, None
        if redirect is not None:
            if self.MEM is not None or self.EX is not None or self.ID is not None or self.IF is not None:
                self.events.add("squash")
            if self.stall is not None:
                self.events.add("stall-cancelled")
            self.MEM = self.EX = self.ID = self.IF = None
            self.pc = redirect
            self.stall = None
            self.events.add("flush")
        elif exit_in_ex:
            # squash everything younger than the exiting ecall
            if self.MEM is ex_slot:
                self.EX = self.ID = self.IF = None
            else:
                self.ID = self.IF = None
            self.pc = ex_slot.pc + 4
            if self.stall is not None and self.stall[0] == "id":
                self.stall = None
            self.events.add("exit-in-ex")
        return ret

    def run(self, maxcycles):
        while self.cyc < maxcycles and not self.finished():
            self.cycle()
        return self

    @property
    def done(self):
        return self.err is None and (self.exit is not None or (self.empty() and self.pc not in self.prog))

    def control_key(self, end, sym_index):
        """Control state relative to the end of the program prefix (fixed-point search, C07/C08)."""
        def k(s):
            return None if s is None else (sym_index[s.ins], s.pc - end, s.done)

        return (k(self.IF), k(self.ID), k(self.EX), k(self.MEM), k(self.WB),
                None if self.stall is None else tuple(self.stall), self.pc - end, self.regs[17])
