"""Reference replacement policies (C10): LRU by time stamps, tree-PLRU as an explicit recursive tree."""
from __future__ import annotations


class LRURef:
    def __init__(self, n):
        self.n = n
        # never-accessed ways are the oldest, in index order
        self.stamp = [i - n for i in range(n)]
        self.clock = 0

    def access(self, i):
        self.stamp[i] = self.clock
        self.clock += 1

    def victim(self):
        return min(range(self.n), key=lambda i: self.stamp[i])

    def ranks(self):
        """rank of way i in the victim order (0 = next victim)."""
        order = sorted(range(self.n), key=lambda i: self.stamp[i])
        r = [0] * self.n
        for k, i in enumerate(order):
            r[i] = k
        return r

    def key(self):
        return tuple(self.ranks())

    def copy(self):
        c = LRURef(self.n)
        c.stamp = list(self.stamp)
        c.clock = self.clock
        return c


class _Node:
    __slots__ = ("lo", "hi", "bit", "left", "right")

    def __init__(self, lo, hi):
        self.lo, self.hi = lo, hi
        self.bit = 0  # 0: older blocks in the upper (low-index) subtree, 1: older blocks in the lower (high-index) subtree
        if hi - lo > 1:
            mid = (lo + hi) // 2
            self.left = _Node(lo, mid)
            self.right = _Node(mid, hi)
        else:
            self.left = self.right = None


class PLRURef:
    def __init__(self, n):
        assert n >= 1 and n & (n - 1) == 0
        self.n = n
        self.root = _Node(0, n)

    def access(self, i):
        node = self.root
        while node.left is not None:
            if i < node.left.hi:
                node.bit = 1  # accessed block is in the upper subtree -> older blocks are in the lower one
                node = node.left
            else:
                node.bit = 0
                node = node.right

    def victim(self):
        node = self.root
        while node.left is not None:
            node = node.right if node.bit else node.left
        return node.lo

    def bits(self):
        """heap order: root, then level by level, upper child first — the array the GUI draws."""
        out = []
        level = [self.root]
        while level and level[0].left is not None:
            out.extend(bool(x.bit) for x in level)
            level = [c for x in level for c in (x.left, x.right)]
        return out

    def key(self):
        return tuple(self.bits())

    def copy(self):
        c = PLRURef(self.n)
        for a, b in zip(_walk(self.root), _walk(c.root)):
            b.bit = a.bit
        return c


def _walk(node):
    if node is None:
        return
    yield node
    yield from _walk(node.left)
    yield from _walk(node.right)


def make(policy, n):
    return LRURef(n) if policy == "lru" else PLRURef(n)
