"""Golden RV32IM + ecall model on plain Python ints (independent of the simulator's code).

Instruction = (op, rd, rs1, rs2, imm) with the *raw* immediate as handed to the constructor; the
model applies the architectural sign extension / truncation itself.
"""
from __future__ import annotations


M = 0xFFFFFFFF
MINADDR = 2**14  # first data address (documented memory map; checked against Settings by the adapter)
IMEM_END = 2**14


def s32(x):
    x &= M
    return x - (1 << 32) if x >> 31 else x


def sx(v, bits):
    v &= (1 << bits) - 1
    return v - (1 << bits) if v >> (bits - 1) else v


def tdiv(a, b):
    """Truncating signed division on Python ints."""
    q = abs(a) // abs(b)
    return q if (a < 0) == (b < 0) else -q


def _div(a, b):
    if b == 0:
        return M
    a, b = s32(a), s32(b)
    if a == -(1 << 31) and b == -1:
        return 1 << 31
    return tdiv(a, b) & M


def _rem(a, b):
    if b == 0:
        return a
    a, b = s32(a), s32(b)
    if a == -(1 << 31) and b == -1:
        return 0
    return (a - tdiv(a, b) * b) & M


ALU = {
    "add": lambda a, b: (a + b) & M,
    "sub": lambda a, b: (a - b) & M,
    "sll": lambda a, b: (a << (b & 31)) & M,
    "slt": lambda a, b: int(s32(a) < s32(b)),
    "sltu": lambda a, b: int(a < b),
    "xor": lambda a, b: a ^ b,
    "srl": lambda a, b: a >> (b & 31),
    "sra": lambda a, b: (s32(a) >> (b & 31)) & M,
    "or": lambda a, b: a | b,
    "and": lambda a, b: a & b,
    "mul": lambda a, b: (a * b) & M,
    "mulh": lambda a, b: ((s32(a) * s32(b)) >> 32) & M,
    "mulhu": lambda a, b: ((a * b) >> 32) & M,
    "mulhsu": lambda a, b: ((s32(a) * b) >> 32) & M,
    "div": _div,
    "divu": lambda a, b: M if b == 0 else a // b,
    "rem": _rem,
    "remu": lambda a, b: a if b == 0 else a % b,
}
IALU = {"addi": "add", "slti": "slt", "sltiu": "sltu", "xori": "xor", "ori": "or", "andi": "and",
        "slli": "sll", "srli": "srl", "srai": "sra"}
SHIFTS = ("slli", "srli", "srai")
BR = {
    "beq": lambda a, b: a == b,
    "bne": lambda a, b: a != b,
    "blt": lambda a, b: s32(a) < s32(b),
    "bge": lambda a, b: s32(a) >= s32(b),
    "bltu": lambda a, b: a < b,
    "bgeu": lambda a, b: a >= b,
}
LD = {"lb": (1, True), "lh": (2, True), "lw": (4, False), "lbu": (1, False), "lhu": (2, False)}
ST = {"sb": 1, "sh": 2, "sw": 4}


class Fault(Exception):
    """Architectural fault. dontcare = cells a straddling store may or may not have written (C18 allows both)."""

    def __init__(self, what, dontcare=()):
        super().__init__(what)
        self.dontcare = tuple(dontcare)


class Mem:
    """Flat little-endian byte store, addresses mod 2^32, valid range [MINADDR, 2^32)."""

    __slots__ = ("b", "log")

    def __init__(self, init=None):
        self.b = dict(init or {})
        self.log = None  # optional access log: list of (kind, addr, width)

    def rd(self, a, n, counted=True):
        v = 0
        for i in range(n):
            x = (a + i) & M
            if x < MINADDR:
                raise Fault("addr")
            v |= self.b.get(x, 0) << (8 * i)
        if self.log is not None:
            self.log.append(("r" if counted else "u", a & M, n))
        return v

    def wr(self, a, n, v):
        cells = [(a + i) & M for i in range(n)]
        if any(x < MINADDR for x in cells):
            raise Fault("addr", [x for x in cells if x >= MINADDR])
        for i in range(n):
            self.b[(a + i) & M] = (v >> (8 * i)) & 0xFF
        if self.log is not None:
            self.log.append(("w", a & M, n))

    def image(self):
        return {a: v for a, v in self.b.items() if v}

    def copy(self):
        m = Mem(self.b)
        return m


def srcs(ins):
    op, rd, rs1, rs2, imm = ins
    if op in ALU or op in BR or op in ST:
        return (rs1, rs2)
    if op in IALU or op in LD or op == "jalr":
        return (rs1,)
    return ()


def dest(ins):
    """Destination register as the pipeline interlock sees it (None = no destination)."""
    op, rd, rs1, rs2, imm = ins
    if op in BR or op in ST:
        return None
    if op == "ecall":
        return 0
    return rd


def fmt_float(bits):
    """IEEE-754 binary32 decoded by hand (every binary32 value is exact as a Python float)."""
    sign = -1.0 if bits >> 31 else 1.0
    e = (bits >> 23) & 0xFF
    m = bits & 0x7FFFFF
    if e == 0xFF:
        return "nan" if m else ("-inf" if sign < 0 else "inf")
    if e == 0:
        v = sign * m * 2.0**-149
    else:
        v = sign * (1.0 + m * 2.0**-23) * 2.0 ** (e - 127)
    return str(v)


def ecall(regs, mem):
    code = regs[17]
    arg = regs[10]
    if code == 1:
        return ("out", str(s32(arg)))
    if code == 2:
        return ("out", fmt_float(arg))
    if code == 4:
        s = ""
        a = arg
        while True:
            b = mem.rd(a, 1, counted=False)
            if b == 0:
                break
            s += chr(b % 128)
            a += 1
        return ("out", s)
    if code == 11:
        return ("out", chr(arg % 128))
    if code == 34:
        return ("out", "0x%X" % arg)
    if code == 35:
        return ("out", "0b" + format(arg, "b"))
    if code == 36:
        return ("out", str(arg))
    if code == 10:
        return ("exit", 0)
    if code == 93:
        return ("exit", arg)
    raise Fault("ecall")


class Res:
    __slots__ = ("wr", "npc", "redirect", "out", "exit", "kind")

    def __init__(self, pc, kind):
        self.wr = None
        self.npc = pc + 4
        self.redirect = False
        self.out = None
        self.exit = None
        self.kind = kind


def execute(ins, pc, opv, regs_for_ecall, mem):
    """Architectural effect of one instruction given the operand values it read."""
    op, rd, rs1, rs2, imm = ins
    a = opv[0] if len(opv) > 0 else 0
    b = opv[1] if len(opv) > 1 else 0
    r = Res(pc, op)
    if op in ALU:
        r.wr = (rd, ALU[op](a, b))
    elif op in IALU:
        i = imm & 31 if op in SHIFTS else sx(imm, 12) & M
        r.wr = (rd, ALU[IALU[op]](a, i))
    elif op in LD:
        n, sg = LD[op]
        v = mem.rd((a + sx(imm, 12)) & M, n)
        if sg:
            v = sx(v, 8 * n) & M
        r.wr = (rd, v)
    elif op in ST:
        n = ST[op]
        mem.wr((a + sx(imm, 12)) & M, n, b & ((1 << (8 * n)) - 1))
    elif op in BR:
        if BR[op](a, b):
            r.npc = pc + sx(imm, 13)
            r.redirect = True
    elif op == "lui":
        r.wr = (rd, (sx(imm, 20) << 12) & M)
    elif op == "auipc":
        r.wr = (rd, (pc + (sx(imm, 20) << 12)) & M)
    elif op == "jal":
        r.wr = (rd, (pc + 4) & M)
        r.npc = pc + sx(imm, 21)
        r.redirect = True
    elif op == "jalr":
        r.wr = (rd, (pc + 4) & M)
        r.npc = ((a + sx(imm, 12)) & M) & ~1
        r.redirect = True
    elif op == "ecall":
        k, v = ecall(regs_for_ecall, mem)
        if k == "out":
            r.out = v
        else:
            r.exit = v
    else:
        raise ValueError(op)
    return r


class SeqResult:
    __slots__ = ("done", "regs", "mem", "out", "exit", "retired", "err", "ic", "bc", "jc", "pc", "steps",
                 "events", "loads", "stores", "dontcare")


def run_seq(prog, regs, mem, maxsteps, per_step=None, pc0=0):
    """Sequential golden run. prog: dict addr -> ins. regs (list of 32) and mem are mutated.

    per_step(i, pc_after, regs, mem, out, exit) is called after every retired instruction.
    Termination: pc holds no instruction, or an exit ecall was executed.
    """
    pc = pc0
    out = ""
    exitc = None
    retired = []
    err = None
    bc = jc = 0
    n = 0
    dontcare = ()
    events = set()
    loads = stores = 0
    while (pc & M) in prog and (pc & M) == pc and exitc is None and n < maxsteps:
        ins = prog[pc]
        n += 1
        try:
            r = execute(ins, pc, [regs[x] for x in srcs(ins)], regs, mem)
        except Fault as f:
            err = pc
            dontcare = f.dontcare
            events.add("fault")
            break
        if r.wr and r.wr[0] != 0:
            regs[r.wr[0]] = r.wr[1]
        if r.out is not None:
            out += r.out
            events.add("print")
        if r.exit is not None:
            exitc = r.exit
            events.add("exit")
        if r.redirect:
            if ins[0] in BR:
                bc += 1
                events.add("taken")
            elif ins[0] == "jal":
                jc += 1
                events.add("jal")
            else:
                events.add("jalr")
        if ins[0] in LD:
            loads += 1
        elif ins[0] in ST:
            stores += 1
        retired.append(pc)
        pc = r.npc & M
        if per_step is not None:
            per_step(n, pc, regs, mem, out, exitc)
    res = SeqResult()
    res.done = err is None and (exitc is not None or pc not in prog)
    res.regs = list(regs)
    res.mem = mem.image()
    res.out = out
    res.exit = exitc
    res.retired = retired
    res.err = err
    res.ic = len(retired)
    res.bc = bc
    res.jc = jc
    res.pc = pc
    res.steps = n
    res.events = events
    res.loads = loads
    res.stores = stores
    res.dontcare = dontcare
    return res
