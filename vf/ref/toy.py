"""Reference TOY accumulator machine (C06, C19, C20): 4096 x 16-bit unified memory, 16-bit accu, 12-bit pc."""
from __future__ import annotations

MN = ["STO", "LDA", "BRZ", "ADD", "SUB", "OR", "AND", "XOR", "NOT", "INC", "DEC", "ZRO", "NOP"]
W = 0xFFFF


def decode(word):
    op = (word >> 12) & 0xF
    return min(op, 12), word & 0xFFF


def encode_loaded(word):
    """The value the instruction register shows for a fetched word (opcodes 13-15 are NOPs)."""
    op, addr = decode(word)
    return (op << 12) | addr


def text(word):
    op, addr = decode(word)
    return f"{MN[op]} 0x{addr:03X}" if op < 8 else MN[op]


class ToyRef:
    """fetch-when-executed: the next instruction word is read after the current instruction acted."""

    def __init__(self, words, data=None, accu=0):
        self.mem = {}
        for i, w in enumerate(words):
            self.mem[i] = w & W
        if data:
            for a, v in data.items():
                self.mem[a] = v & W
        self.maxpc = len(words) - 1
        self.accu = accu & W
        self.cur = 0  # address of the loaded instruction
        self.ir = self.mem.get(0, 0) if words else None  # loaded instruction word (None = halted)
        self.nxt = 1  # address the next fetch will use
        self.count = 0
        self.cycles = 0
        self.branches = 0
        self.phase = 1
        self.events = set()

    def rd(self, a):
        return self.mem.get(a, 0)

    def done(self):
        return self.ir is None

    def first_half(self):
        op, addr = decode(self.ir)
        a = self.accu
        if op == 0:
            self.mem[addr] = a
            if addr <= self.maxpc:
                self.events.add("self-modify")
        elif op == 1:
            a = self.rd(addr)
        elif op == 2:
            if a == 0:
                self.nxt = addr
                self.branches += 1
                self.events.add("taken")
                if addr > self.maxpc:
                    self.events.add("branch-out")
        elif op == 3:
            a = (a + self.rd(addr)) & W
        elif op == 4:
            a = (a - self.rd(addr)) & W
        elif op == 5:
            a |= self.rd(addr)
        elif op == 6:
            a &= self.rd(addr)
        elif op == 7:
            a ^= self.rd(addr)
        elif op == 8:
            a = ~a & W
        elif op == 9:
            a = (a + 1) & W
        elif op == 10:
            a = (a - 1) & W
        elif op == 11:
            a = 0
        self.accu = a
        self.cycles += 1
        self.phase = 2

    def second_half(self):
        p = self.nxt
        self.cur = p
        self.ir = self.rd(p) if p <= self.maxpc else None
        if p == 4095:
            self.events.add("pc-wrap")
        self.nxt = (p + 1) & 0xFFF
        self.count += 1
        self.cycles += 1
        self.phase = 1

    def step(self):
        if self.ir is None:
            return
        self.first_half()
        self.second_half()

    def snapshot(self):
        return (self.accu, self.nxt, None if self.ir is None else encode_loaded(self.ir), self.count, self.cycles, self.branches,
                tuple(sorted((a, v) for a, v in self.mem.items() if v)))
