"""Reference n-bit formatter (C17): bin / unsigned dec / hex / signed dec strings of v mod 2^n."""
from __future__ import annotations

HEX = "0123456789ABCDEF"


def group(s, k):
    """Spaces inserted every k characters counted from the right."""
    out = []
    while s:
        out.append(s[-k:])
        s = s[:-k]
    return " ".join(reversed(out))


def fmt(v, n):
    u = v % (1 << n)
    signed = u - (1 << n) if u >> (n - 1) else u
    bits = "".join("1" if (u >> i) & 1 else "0" for i in range(n - 1, -1, -1))
    nd = (n + 3) // 4
    hx = "".join(HEX[(u >> (4 * i)) & 15] for i in range(nd - 1, -1, -1))
    return (group(bits, 8), str(u), group(hx, 2), str(signed))


def parse_back(reps, n):
    """The value each of the four strings denotes (mod 2^n)."""
    b, u, h, s = reps
    return (int(b.replace(" ", ""), 2), int(u, 10), int(h.replace(" ", ""), 16), int(s, 10) % (1 << n))
