"""C14 — printed instruction text re-assembles to the same instruction (ENUM)."""
from __future__ import annotations

import collections
import itertools

import fixedint
import time

from architecture_simulator.isa.riscv import rv32i_instructions as I
from architecture_simulator.simulation.riscv_simulation import RiscvSimulation
from architecture_simulator.simulation.runtime_errors import InstructionExecutionException

from vf.adapt import asm
from vf.checks import c04
from vf.engine.core import CaseTimeout, Partial, pmap, watchdog
from vf.ref import rv32

ID = "C14"
LEVEL = "exploration"
R = ["add", "sub", "sll", "slt", "sltu", "xor", "srl", "sra", "or", "and", "mul", "mulh", "mulhu", "mulhsu", "div", "divu", "rem", "remu"]
IALU = ["addi", "slti", "sltiu", "xori", "ori", "andi"]
LOADS = ["lb", "lh", "lw", "lbu", "lhu"]
STORES = ["sb", "sh", "sw"]
BRANCHES = ["beq", "bne", "blt", "bge", "bltu", "bgeu"]
SHIFTS = ["slli", "srli", "srai"]
CSR = ["csrrw", "csrrs", "csrrc"]
CSRI = ["csrrwi", "csrrsi", "csrrci"]


def build(spec, addr):
    """spec = (mnemonic, a, b, c) -> instruction object built directly with the public constructor."""
    mn, a, b, c = spec
    C = I.instruction_map[mn]
    if mn in R:
        return C(rd=a, rs1=b, rs2=c)
    if mn in IALU or mn in LOADS or mn in SHIFTS or mn == "jalr":
        return C(rd=a, rs1=b, imm=c)
    if mn in STORES or mn in BRANCHES:
        return C(rs1=a, rs2=b, imm=c)
    if mn in ("lui", "auipc"):
        return C(rd=a, imm=b)
    if mn == "jal":
        return C(rd=a, imm=b, abs_addr=addr + rv32.sx(b, 21))
    if mn in CSR:
        return C(rd=a, csr=b, rs1=c)
    if mn in CSRI:
        return C(rd=a, csr=b, uimm=c)
    return C()


def roundtrip_batch(specs, p, tag, start_index=0):
    """Print every instruction of the batch, assemble the listing as one program, compare slot by slot."""
    objs = [build(s, 4 * i) for i, s in enumerate(specs)]
    text = "\n".join(repr(o) for o in objs) + "\n"
    p.evaluations += len(objs)
    try:
        sim = RiscvSimulation()
        with watchdog(120):
            sim.load_program(text)
    except CaseTimeout:
        p.violation(dict(oracle="print-parse", field="termination"), dict(kind="batch", specs=[list(s) for s in specs[:50]]), f"{tag}: re-assembling the printed batch did not terminate")
        return
    except Exception as e:  # noqa
        # find the offending line by bisection on single lines (cheap: only on failure)
        ln = getattr(e, "line_number", None)
        i = (ln - 1) if isinstance(ln, int) and 1 <= ln <= len(objs) else 0
        p.violation(dict(oracle="print-parse", field="rejected", mnemonic=specs[i][0]), dict(kind="one", spec=list(specs[i]), addr=4 * i),
                    f"{tag}: printed text {repr(objs[i])!r} of {specs[i]} is rejected: {type(e).__name__}: {e!r}", size=(i,))
        return
    im = sim.state.instruction_memory
    for i, o in enumerate(objs):
        a = 4 * i
        if not im.instruction_at_address(a):
            p.violation(dict(oracle="print-parse", field="missing", mnemonic=specs[i][0]), dict(kind="one", spec=list(specs[i]), addr=a), f"{tag}: no instruction at {a} after re-assembly", size=(i,))
            return
        got = im.read_instruction(a)
        fo, fg = asm.fields_full(o), asm.fields_full(got)
        ok = type(got) is type(o) and fo == fg
        if ok and specs[i][0] == "jal":
            ok = got.abs_addr == o.abs_addr
        if fo[4] not in (None, 0) or (fo[1] or 0) + (fo[2] or 0) + (fo[3] or 0) > 0:
            p.nontrivial += 1
        if not ok:
            p.violation(dict(oracle="print-parse", field="differs", mnemonic=specs[i][0]), dict(kind="one", spec=list(specs[i]), addr=a),
                        f"{tag}: {specs[i]} prints as {repr(o)!r} and re-assembles at {a} to {type(got).__name__}{fg}, expected {type(o).__name__}{fo}", size=(i,))
            return
    # the LISTING of the whole batch (one memory holding many instructions of one mnemonic that differ in a single operand):
    # a line that is not simply the stored instruction's own text must still assemble, at its address, to that instruction
    try:
        listing = sim.get_instruction_memory_entries()
    except Exception as e:  # noqa
        p.violation(dict(oracle="listing-of-a-batch", field="error"), dict(kind="batch", specs=[list(s) for s in specs[:50]]), f"{tag}: the listing of the batch raised {type(e).__name__}: {e!r}")
        return
    p.counters["listing-of-a-batch"] += 1
    if len(listing) != len(objs):
        p.violation(dict(oracle="listing-of-a-batch", field="length"), dict(kind="batch", specs=[list(s) for s in specs[:50]]), f"{tag}: the listing has {len(listing)} lines for {len(objs)} instructions")
        return
    for i, ((a, _hx), text, _stage) in enumerate(listing):
        if a != 4 * i:
            p.violation(dict(oracle="listing-of-a-batch", field="address"), dict(kind="batch", specs=[list(s) for s in specs[:50]]), f"{tag}: listing line {i} has address {a}")
            return
        stored = im.read_instruction(a)
        if text != repr(stored):
            want = (type(stored).__name__, asm.fields_full(stored)) + ((stored.abs_addr,) if type(stored).__name__ == "JAL" else ())
            d = text_denotes(text, a, want)
            if d:
                p.violation(dict(oracle="listing-of-a-batch", field="line-denotes-another-instruction", mnemonic=specs[i][0]), dict(kind="batch", specs=[list(s) for s in specs[:i + 1]], line=i),
                            f"{tag}: in the listing of a program of {len(objs)} instructions line {i} reads {text!r}: {d}", size=(i,))
                return
    if start_index == 0:
        p.sample(dict(kind="one", spec=list(specs[len(specs) // 2]), text=repr(objs[len(specs) // 2])))


def gen_specs(group, thorough, seed):
    regs5 = (0, 1, 9, 10, 31)
    if group == "rtype":
        for mn in R:
            if thorough:
                for a, b, c in itertools.product(range(32), repeat=3):
                    yield (mn, a, b, c)
            else:
                for r in range(32):
                    yield (mn, r, 3, 4)
                    yield (mn, 3, r, 4)
                    yield (mn, 3, 4, r)
                for a, b, c in itertools.product(regs5, repeat=3):
                    yield (mn, a, b, c)
    elif group.startswith("imm12-"):
        mn = group[6:]
        pats = [(5, 6), (0, 31), (31, 0)] if thorough else [((5 + seed) % 32, (6 + seed) % 32)]
        for a, b in pats:
            for imm in range(-2048, 2048):
                yield (mn, a, b, imm)
        for r in range(32):
            yield (mn, r, 7, -1)
            yield (mn, 7, r, 1)
    elif group == "shift":
        for mn in SHIFTS:
            for sh in range(32):
                for a, b in ((1, 2), (31, 0), (0, 31)):
                    yield (mn, a, b, sh)
    elif group.startswith("branch-"):
        mn = group[7:]
        for imm in range(-4096, 4096, 2):
            yield (mn, (imm // 2) % 32, (imm // 64) % 32, imm)
    elif group == "utype":
        imms = range(1 << 20) if thorough else sorted(set(range(seed % 257, 1 << 20, 257)) | {0, 1, 0x7FFFF, 0x80000, 0x80001, 0xFFFFE, 0xFFFFF})
        for mn in ("lui", "auipc"):
            for imm in imms:
                yield (mn, imm % 32, imm, 0)
    elif group == "jal":
        bnd = [0, 2, 4, -2, -4, 8, 2046, 2048, -2048, 0xFFFFE, -0x100000, 0x7FFFE, 0x80000, 16380, -16380, 4094, -4096, 6]
        if thorough:
            k = 0
            for imm in range(-(1 << 20), 1 << 20, 2):
                yield ("jal", k % 32, imm, 0)
                k += 1
        else:
            # every boundary immediate at every one of the 4096 instruction addresses
            for imm in bnd:
                for i in range(4096):
                    yield ("jal", (i + imm) % 32, imm, 0)
    elif group == "csr":
        for mn in CSR:
            for csr in range(4096):
                yield (mn, csr % 32, csr, (csr // 32) % 32)
        for mn in CSRI:
            for csr in range(4096):
                yield (mn, csr % 32, csr, (csr // 128) % 32)
            for u in range(32):
                yield (mn, 1, 0x300, u)
    elif group == "system":
        for mn in ("ecall", "ebreak"):
            for _ in range(3):
                yield (mn, 0, 0, 0)


def batch_shard(shard):
    group, thorough, seed, part, parts = shard
    p = Partial()
    specs = list(gen_specs(group, thorough, seed))
    batches = [specs[i:i + 4096] for i in range(0, len(specs), 4096)]
    for bi, b in enumerate(batches):
        if bi % parts != part:
            continue
        roundtrip_batch(b, p, group, bi)
    return p


def groups():
    g = ["rtype", "shift", "utype", "jal", "csr", "system"]
    g += ["imm12-" + m for m in IALU + LOADS + ["jalr"] + STORES]
    g += ["branch-" + m for m in BRANCHES]
    return g


def listing_fixpoint(a):
    """a: an assembled program. Its printed listing must re-assemble to the same instructions and the same listing."""
    listing = [t for (_a, _h), t, _s in a.sim.get_instruction_memory_entries()]
    try:
        b = asm.assemble("\n".join(listing) + "\n")
        listing2 = [t for (_a, _h), t, _s in b.sim.get_instruction_memory_entries()]
        if listing2 != listing:
            return f"listing {listing} re-assembles to the listing {listing2}"
        if b.fields != a.fields:
            k = next(i for i, (x, y) in enumerate(zip(a.fields, b.fields)) if x != y)
            return f"listing {listing}: instruction {k} is {a.fields[k]} but its printed text re-assembles to {b.fields[k]}"
        return None
    except Exception as e:  # noqa
        return f"listing {listing} is rejected: {type(e).__name__}: {e!r}"


def listing_fixpoint_shard(shard):
    """For programs of the C04 corpus: listing -> text -> load -> listing is a fixed point."""
    L, first = shard
    p = Partial()
    for case in c04.gen_layouts(c04.ALL_KINDS, L, 1):
        if case[0][0] != c04.ALL_KINDS[first]:
            continue
        text = c04.render(case, "data-first")
        try:
            a = asm.assemble(text)
        except Exception:  # noqa  (C04 decides whether the text must assemble)
            continue
        p.evaluations += 1
        p.nontrivial += 1
        d = listing_fixpoint(a)
        if d:
            p.violation(dict(oracle="listing-fixpoint", field="differs"), dict(kind="listing", text=text), f"{text!r}: {d}", size=(L, len(text)))
    return p


OVERWRITE_SPECS = [("addi", 1, 2, 3), ("add", 4, 5, 6), ("lw", 7, 8, -4), ("sw", 9, 10, 8), ("beq", 1, 2, -8), ("jal", 1, 12, 0), ("lui", 3, 0x12345, 0),
                   ("jalr", 1, 2, 4), ("ecall", 0, 0, 0), ("slli", 5, 6, 31), ("csrrw", 1, 0x300, 2), ("mul", 1, 1, 1)]


def overwrite_shard(shard):
    """The listing shows the instruction that is stored NOW: write A at an address, look at the listing, overwrite it in
    place with B, look again — for every ordered pair (A, B) at three addresses, with a neighbour that stays."""
    first = shard
    p = Partial()
    A = OVERWRITE_SPECS[first]
    for B in OVERWRITE_SPECS:
        for addr in (0, 4, 4092):
            sim = RiscvSimulation()
            im = sim.state.instruction_memory
            keep = build(("addi", 9, 9, 9), addr + 4)
            if (first + OVERWRITE_SPECS.index(B)) % 2:
                # the neighbour first: the store is then not filled in ascending address order
                im.write_instruction(addr + 4, keep)
                im.write_instruction(addr, build(A, addr))
                p.counters["listing-of-a-memory-filled-out-of-order"] += 1
            else:
                im.write_instruction(addr, build(A, addr))
                im.write_instruction(addr + 4, keep)
            first_listing = [t for (_a, _h), t, _s in sim.get_instruction_memory_entries()]
            ob = build(B, addr)
            im.write_instruction(addr, ob)
            listing = {a: t for (a, _h), t, _s in sim.get_instruction_memory_entries()}
            p.evaluations += 1
            if A != B:
                p.nontrivial += 1
                p.counters["listing-after-in-place-overwrite"] += 1
            exp = {addr: repr(ob), addr + 4: repr(keep)}
            if listing != exp or first_listing != [repr(build(A, addr)), repr(keep)]:
                p.violation(dict(oracle="listing-current", field="stale"), dict(kind="overwrite", a=list(A), b=list(B), addr=addr),
                            f"write {A} at {addr}, list, overwrite with {B}, list: listing {listing}, stored {exp}", size=(first, addr))
    return p


def exec_specs():
    """Wide operands and boundary immediates of every mnemonic (the longest texts the views have to show)."""
    out = []
    for regs in ((31, 31, 31), (10, 11, 12), (1, 2, 3), (0, 0, 0), (0, 0, 7), (0, 7, 0)):
        a, b, c = regs
        out += [(mn, a, b, c) for mn in R]
        for imm in (-2048, -1, 2047, 0, 1365):
            out += [(mn, a, b, imm) for mn in IALU + LOADS + ["jalr"] + STORES]
        for sh in (31, 0, 17):
            out += [(mn, a, b, sh) for mn in SHIFTS]
        for imm in (-4096, 4094, -2, 8):
            out += [(mn, a, b, imm) for mn in BRANCHES]
        for imm in (0, 1, 0x7FFFF, 0x80000, 0xFFFFF):
            out += [(mn, a, imm, 0) for mn in ("lui", "auipc")]
        for imm in (-0x100000, 0xFFFFE, 8, -2, 0):
            out.append(("jal", a, imm, 0))
        for csr in (0, 0x300, 0xFFF):
            out += [(mn, a, csr, b) for mn in CSR] + [(mn, a, csr, 31) for mn in CSRI]
    out += [("ecall", 0, 0, 0), ("ebreak", 0, 0, 0)]
    return out


_TEXT_OK: dict = {}
SEEN = collections.Counter()


def text_denotes(text, addr, want):
    """Does `text`, assembled at `addr`, give the instruction `want` = (class name, fields[, jal target])?"""
    key = (text, addr, want)
    r = _TEXT_OK.get(key)
    if r is None:
        try:
            sim = RiscvSimulation()
            sim.load_program("addi x0, x0, 0\n" * (addr // 4) + text + "\n")
            got = sim.state.instruction_memory.read_instruction(addr)
            g = (type(got).__name__, asm.fields_full(got)) + ((got.abs_addr,) if type(got).__name__ == "JAL" else ())
            r = None if g == want else f"{text!r} assembles at {addr} to {g}, the instruction there is {want}"
        except Exception as e:  # noqa
            r = f"{text!r} is rejected at {addr}: {type(e).__name__}: {e!r}"
        _TEXT_OK[key] = r = (r,)
    return r[0]


def listing_again(texts):
    """Re-assembling a printed listing reproduces the listing (texts: the listing of a program stored from address 0)."""
    key = ("listing",) + texts
    r = _TEXT_OK.get(key)
    if r is None:
        try:
            sim = RiscvSimulation()
            sim.load_program("\n".join(texts) + "\n")
            again = tuple(t for _a, t, _s in sim.get_instruction_memory_entries())
            r = None if again == texts else f"the listing {list(texts)} re-assembles to the listing {list(again)}"
        except Exception as e:  # noqa
            r = f"the listing {list(texts)} is rejected: {type(e).__name__}: {e!r}"
        _TEXT_OK[key] = r = (r,)
    return r[0]


def exec_views(spec, mode, regval, at):
    """Place the instruction (+ a neighbour), execute step by step; after every step the listing, the pipeline view's
    instruction text and the text inside an execution error must still denote the stored instructions."""
    specs = [("addi", 0, 0, 0)] * (at // 4) + [spec, ("addi", 5, 6, -7)]
    want = {}
    for i, sp in enumerate(specs):
        o = build(sp, 4 * i)
        want[4 * i] = (type(o).__name__, asm.fields_full(o)) + ((o.abs_addr,) if sp[0] == "jal" else ())
    sim = RiscvSimulation(mode=mode)
    sim.state.instruction_memory.write_instructions([build(sp, 4 * i) for i, sp in enumerate(specs)])
    for k in range(1, 32):
        sim.state.register_file.registers[k] = fixedint.UInt32(regval)
    bad = []
    five = mode == "five_stage_pipeline"

    def look(when):
        entries = sim.get_instruction_memory_entries()
        for (a, _h), t, _s in entries:
            d = text_denotes(t, a, want[a]) if a in want else f"listing shows an instruction at {a}"
            if d:
                bad.append(("listing", f"{when}: listing: {d}"))
        d = listing_again(tuple(t for _a, t, _s in entries))
        if d:
            bad.append(("listing-fixpoint", f"{when}: {d}"))
        vals = sim.get_riscv_five_stage_svg_update_values() if five else sim.get_riscv_single_stage_svg_update_values()
        d = {i: v for i, _f, v in vals}
        t, a = (d.get("InstructionMemoryInstrText"), d.get("InstructionReadAddressText")) if five else (d.get("instr-mem-instr-text"), d.get("instr-mem-read-addr-text"))
        if t and a not in (None, "") and int(a) in want:
            SEEN["pipeline-view-text-checked"] += 1
            dd = text_denotes(t, int(a), want[int(a)])
            if dd:
                bad.append(("pipeline-view", f"{when}: pipeline view: {dd}"))

    look("before execution")
    for n in range(1, 9 if five else 4):
        if bad or sim.is_done():
            break
        try:
            sim.step()
        except InstructionExecutionException as e:
            if e.address in want:
                SEEN["error-text-checked"] += 1
                dd = text_denotes(e.instruction_repr, e.address, want[e.address])
                if dd:
                    bad.append(("error-message", f"error message after step {n}: {dd}"))
            look(f"after the failing step {n}")
            break
        except Exception:  # noqa  (C13 decides which exceptions may escape)
            break
        look(f"after step {n}")
    return bad


def exec_shard(shard):
    part, parts = shard
    p = Partial()
    SEEN.clear()
    for i, spec in enumerate(exec_specs()):
        if i % parts != part:
            continue
        for mode in ("single_stage_pipeline", "five_stage_pipeline"):
            for regval in (0x5000, 0):
                for at in (0, 8):
                    p.evaluations += 1
                    p.nontrivial += 1
                    p.counters["views-while-executing"] += 1
                    for f, d in exec_views(spec, mode, regval, at)[:1]:
                        p.violation(dict(oracle="views-while-executing", field=f, mnemonic=spec[0]), dict(kind="exec", spec=list(spec), mode=mode, regval=regval, at=at),
                                    f"{spec} at {at}, {mode}, registers = {regval:#x}: {d}", size=(i, at, regval))
    p.counters.update(SEEN)
    return p


DUP_TEXTS = [
    "jal x1, 16\nnop\njal x1, 16\nnop\nadd x2, x2, x2\njal x1, 16\n",
    "jal x0, 0\njal x0, 0\njal x0, 8\njal x0, 8\n",
    "beq x1, x2, 8\nbeq x1, x2, 8\naddi x1, x1, 1\naddi x1, x1, 1\nbne x1, x0, -8\nbne x1, x0, -8\n",
    "f: addi x1, x1, 1\njal x5, f\njal x5, f\nbeq x0, x0, f\nbeq x0, x0, f\njal x5, f+0x4\njal x5, f+0x4\n",
    "lui x3, 4\nlui x3, 4\nlw x1, 4(x3)\nlw x1, 4(x3)\nsw x1, 4(x3)\nsw x1, 4(x3)\nauipc x4, 1\nauipc x4, 1\njalr x0, x1, 4\njalr x0, x1, 4\n",
]


def dup_case(ti):
    """Programs in which the same line occurs several times (at different addresses): every printed line must assemble,
    on its own at its own address, to the instruction the source line denotes THERE (pc-relative forms differ per address)."""
    text = DUP_TEXTS[ti]
    a = asm.assemble(text)
    for addr, ins, src in zip(a.addrs, a.ins, [l for l in text.split("\n") if l and not l.endswith(":")]):
        src = src.split(": ", 1)[-1]
        # what the source line denotes at this address, assembled on its own behind filler lines (labels re-declared in place)
        alone = asm.assemble("".join("f: addi x1, x1, 1\n" if (i == 0 and text.startswith("f:")) else "addi x0, x0, 0\n" for i in range(addr // 4)) + src + "\n")
        want_ins = alone.ins[addr // 4]
        want = (type(want_ins).__name__, asm.fields_full(want_ins)) + ((want_ins.abs_addr,) if type(want_ins).__name__ == "JAL" else ())
        got = (type(ins).__name__, asm.fields_full(ins)) + ((ins.abs_addr,) if type(ins).__name__ == "JAL" else ())
        if got != want:
            return f"{text!r}: the line {src!r} at {addr} is stored as {got}, on its own at that address it denotes {want}"
        d = text_denotes(repr(ins), addr, want)
        if d:
            return f"{text!r}: line {src!r} at {addr}: {d}"
    return listing_fixpoint(a)


def based_case(base):
    """pc-relative forms in a state whose instruction memory starts at `base` (not 0): the printed listing, assembled into an
    equal state, gives the same instructions — immediates relative to the TRUE addresses — and the same listing."""
    from architecture_simulator.uarch.memory.instruction_memory import InstructionMemory
    from architecture_simulator.uarch.riscv.riscv_architectural_state import RiscvArchitecturalState

    def sim_at():
        return RiscvSimulation(state=RiscvArchitecturalState(instruction_memory=InstructionMemory(address_range=range(base, 2 ** 14))))

    text = f"jal x1, {base + 8}\nl: addi x5, x5, 1\njal x2, l\njal x0, {base}\nbeq x0, x0, l\nbne x5, x6, {-8}\njal x3, {base + 40}\nm: jal x4, m\n"
    want_imm = {0: 8, 8: -4, 12: -12, 16: -12, 20: -8, 24: 40 - 24, 28: 0}
    a = sim_at()
    a.load_program(text)
    im = a.state.instruction_memory
    for off, imm in want_imm.items():
        got = im.read_instruction(base + off)
        if int(got.imm) != imm:
            return f"instruction memory starting at {base}: {text.splitlines()[off // 4]!r} at address {base + off} has immediate {int(got.imm)}, its target is {imm} bytes away"
    listing = [t for _a, t in im.get_representation()]
    b = sim_at()
    b.load_program("\n".join(listing) + "\n")
    imb = b.state.instruction_memory
    for (addr, t) in im.get_representation():
        x, y = im.read_instruction(addr), imb.read_instruction(addr)
        if type(x) is not type(y) or asm.fields_full(x) != asm.fields_full(y) or getattr(x, "abs_addr", None) != getattr(y, "abs_addr", None):
            return f"instruction memory starting at {base}: the printed line {t!r} re-assembles at {addr} to {asm.fields_full(y)}, the instruction there is {asm.fields_full(x)}"
    if [t for _a, t in imb.get_representation()] != listing:
        return f"instruction memory starting at {base}: the re-assembled listing differs from the listing"
    return None


def based_shard(base):
    p = Partial()
    p.evaluations += 1
    p.nontrivial += 1
    p.counters["instruction-memory-with-another-first-address"] += 1
    try:
        d = based_case(base)
    except Exception as e:  # noqa
        d = f"instruction memory starting at {base}: {type(e).__name__}: {e!r}"
    if d:
        p.violation(dict(oracle="pc-relative-forms-at-another-base", field="differs"), dict(kind="based", base=base), d, size=(base,))
    return p


def replay(case):
    if case["kind"] == "based":
        d = based_case(case["base"])
        return [(dict(oracle="pc-relative-forms-at-another-base", field="differs"), d)] if d else []
    if case["kind"] == "dup":
        d = dup_case(case["ti"])
        return [(dict(oracle="repeated-lines", field="differs"), d)] if d else []
    if case["kind"] == "exec":
        spec = tuple(case["spec"])
        return [(dict(oracle="views-while-executing", field=f, mnemonic=spec[0]), d) for f, d in exec_views(spec, case["mode"], case["regval"], case["at"])[:1]]
    if case["kind"] == "overwrite":
        part = overwrite_shard(OVERWRITE_SPECS.index(tuple(case["a"])))
        return [(lst[0][1], lst[0][3]) for _k, (n, lst) in part.viol.items()]
    p = Partial()
    if case["kind"] == "one":
        spec = tuple(case["spec"])
        addr = case["addr"]
        # rebuild a batch that places the instruction at the same address
        filler = ("addi", 0, 0, 0)
        specs = [filler] * (addr // 4) + [spec]
        roundtrip_batch(specs, p, "replay", 1)
    elif case["kind"] == "listing":
        d = listing_fixpoint(asm.assemble(case["text"]))
        return [(dict(oracle="listing-fixpoint", field="differs"), d)] if d else []
    else:
        roundtrip_batch([tuple(s) for s in case["specs"]], p, "replay", 1)
    return [(lst[0][1], lst[0][3]) for _k, (n, lst) in p.viol.items()]


def run(ctx):
    thorough = not ctx.quick
    ctx.rule = ("Instruction objects built with the public constructors, printed with repr and re-assembled in batches of up to 4096 lines (so the line index "
                "sweeps all 4096 instruction addresses for pc-relative forms); compared: class, rd, rs1, rs2, imm, csr, uimm and for jal the printed target. "
                "R-type: every register in every operand position + 5^3 combinations (all 32^3 in thorough); I-type ALU, loads, jalr, stores: all 4096 "
                "immediates per mnemonic; shifts: all 32 amounts; branches: all 4096 even 13-bit immediates per mnemonic; lui/auipc: 257-stride + boundaries "
                "(all 2^20 in thorough); jal: boundary immediates at every address (all 2^20 even immediates in thorough); csr*: all 4096 csr numbers, all 32 "
                "uimm; ecall, ebreak. Second clause: listing -> text -> load -> listing is a fixed point for the C04 layout corpus; and the listing shows what is stored now: "
                "write A, list, overwrite in place with B, list, for every ordered pair of 12 instructions at three addresses. Third clause (views while executing): every mnemonic with wide registers and boundary immediates is placed at two addresses and executed step by step in both modes (registers filled with a valid data address / with 0 so loads and stores fault): after every step each listing line, the instruction text of the pipeline view and the text inside an execution error must assemble at that address to the stored instruction, and the listing must re-assemble to itself. FENCE is excluded by the "
                "property. Non-trivial = instruction with a non-zero register or immediate.")
    t0 = time.time()
    shards = []
    for g in groups():
        n = len(list(gen_specs(g, thorough, ctx.seed))) if not thorough or g not in ("rtype", "utype", "jal") else None
        parts = 1 if n is not None and n <= 4096 else (max(1, min(16, (n or 10**6) // 4096)))
        for part in range(parts):
            shards.append((g, thorough, ctx.seed, part, parts))
    part = pmap(batch_shard, shards)
    ctx.space("print-parse-round-trip", part, t0, groups=len(groups()))
    t0 = time.time()
    part = pmap(overwrite_shard, list(range(len(OVERWRITE_SPECS))))
    ctx.space("listing-after-in-place-overwrite", part, t0, pairs=len(OVERWRITE_SPECS) ** 2, addresses=3)
    ctx.require("listing-after-in-place-overwrite", "listing-of-a-batch")
    t0 = time.time()
    part = pmap(based_shard, [0, 4, 0x100, 0x7FC, 0x1000, 0x3F00])
    ctx.space("pc-relative-forms-at-another-base", part, t0, bases=[0, 4, 0x100, 0x7FC, 0x1000, 0x3F00])
    ctx.require("instruction-memory-with-another-first-address")
    t0 = time.time()
    part = Partial()
    for ti in range(len(DUP_TEXTS)):
        part.evaluations += 1
        part.nontrivial += 1
        part.counters["program-with-repeated-lines"] += 1
        d = dup_case(ti)
        if d:
            part.violation(dict(oracle="repeated-lines", field="differs"), dict(kind="dup", ti=ti), d, size=(ti,))
    ctx.space("programs-with-repeated-lines", part, t0, texts=len(DUP_TEXTS))
    ctx.require("program-with-repeated-lines", "listing-of-a-memory-filled-out-of-order")
    t0 = time.time()
    part = pmap(exec_shard, [(i, 32) for i in range(32)])
    ctx.space("views-while-executing", part, t0, specs=len(exec_specs()), modes=2, register_fills=2, addresses=2)
    ctx.require("views-while-executing", "pipeline-view-text-checked", "error-text-checked")
    t0 = time.time()
    Ls = (1, 2)
    part = pmap(listing_fixpoint_shard, [(L, f) for L in Ls for f in range(len(c04.ALL_KINDS))])
    ctx.space("listing-fixpoint", part, t0, corpus="C04 layouts up to length 2, one referencing item")
