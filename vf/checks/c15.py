"""C15 — errors are well-typed: parser errors carry the line, run-time errors the address (fault enumeration)."""
from __future__ import annotations

import itertools
import re
import sys
import time

from architecture_simulator.gui import webgui
from architecture_simulator.isa.parser_exceptions import MemorySizeException, ParserException
from architecture_simulator.simulation.riscv_simulation import RiscvSimulation
from architecture_simulator.simulation.runtime_errors import InstructionExecutionException
from architecture_simulator.simulation.toy_simulation import ToySimulation
from architecture_simulator.uarch.memory.memory import MemoryAddressError

from vf.adapt import rv
from vf.checks import alpha
from vf.engine.core import CaseTimeout, Partial, pmap, watchdog
from vf.ref import rv32

ID = "C15"
LEVEL = "fault_enumeration"

RV_BASES = [
    ".data\n  b: .byte 1, -2, 0x7f\n  h: .half 0x1234, 7\n  w: .word 0x12345678, 0b101\n  s: .string \"hi!\"\n  z: .zero 2\n.text\nstart:\n  la x3, w\n  lw x1, 0(x3)\n  lw x2, w[1]\n  add x4, x1, x2\n  sw x4, z[1], x5\n  loop: addi x4, x4, -1\n  bne x4, x0, loop\n  jal x1, end+0x4\nend:\n  nop\n  ecall\n",
    "addi x1, x0, 5 # five\nli a0, 0x12345\nmv t1, a0\nslli x2, x1, 3\nlb x3, -4(sp)\nsh x3, x2, 6\nbeq x1, x2, 8\njalr ra, t0, 0\nlui s1, 74565\njal x0, 0\ncsrrw x1, 0x300, x2\ncsrrwi x1, 0x300, 5\n",
    "f: add x1, x2, x3\n.data\nv: .word 1\n",
    ".text\nmul x1, x2, x3\ndivu x4, x5, x6\nsltiu x7, x8, -1\nauipc x9, 1\nbgeu x1, x2, f\nf:\nebreak\n",
    "lw x1, 8(x2)\n",
    "x: .word 5\n",
    "",
    ".data\n.text\n",
    "l1:\nl2:\n l3: jal x1, l1\n",
    ".data\ns: .string \"a b, c: d\"\n.text\nlbu x1, s[2]\nsb x1, s[0], x2\n",
    "srai x1, x1, 31\nxori x2, x2, -1\nblt x1, x2, -4\n",
    "li x1, -2048\nli x2, 2048\nli x3, -0x80000000\nla x4, q\n.data\nq: .half -1\n",
]
TOY_BASES = [
    ".data\n  n: .word 10\n  r: .word 0, 0x0F\n.text\n  LDA n\n  BRZ end\nloop:\n  ADD r\n  STO 0x400\n  DEC\n  BRZ end\n  ZRO\n  BRZ loop\nend:\n",
    "LDA 5\nINC\nl: STO 4095 # c\nBRZ l\nNOT\nNOP\n",
    "",
    "x: INC\n.data\nv: .word 1, 2, 3\n",
    ".text\nSUB 0x001\nOR 1\nAND 2\nXOR 3\n",
    "a:\nb:\nZRO\nBRZ a\n",
]
BIGDEC = "9" * 4301
BIGHEX = "0x" + "F" * 100000
REPLACEMENTS = [",", ":", "(", ")", "[", "]", ".", "#", '"', "'", "+", "-", "--1", "x32", "x-1", "007", "00", "0x", "0b", "0b2", "0xG", "1e3", "\u0663", "\u00b2",
                "\uff11", "\u017fub", "add\u0131", "ADD\u0130", "\u017fw", "\u0130NC", "\u017fto", "l\u0131", '"\u03c0"', '"a\u20acb"', '"\u65e5\u672c"', '"\U0001F600"', '"\u00fc\u00e9"', BIGDEC, "-" + BIGDEC, BIGHEX, "nolabel", "novar[1]", ".foo", ".data", ".text", ".word", "v: .word 1", "add x1, x2, x3", "4294967296", "-4294967297",
                "x1", "sp", "add", "LDA", "end", "0", "-1", "1"]
TOKEN = re.compile(r"\"[^\"\n]*\"|[A-Za-z_][A-Za-z_0-9]*|-?0x[0-9A-Fa-f]+|-?0b[01]+|-?[0-9]+|[^\sA-Za-z_0-9]")


EOL = re.compile(r"\r\n|\r|\n")  # what an editor (and str.splitlines on these texts) takes for the end of a line
EOL_FAULTS = ("<delete>", "0x", "nolabel", ":")


def tokens_of(text):
    """[(line index, start, end)] for every token of every line (comments included as tokens of their own characters)."""
    out = []
    for li, line in enumerate(text.split("\n")):
        for m in TOKEN.finditer(line):
            out.append((li, m.start(), m.end()))
    return out


def mutate(text, tok, fault):
    lines = text.split("\n")
    li, a, b = tok
    line = lines[li]
    t = line[a:b]
    if fault == "<delete>":
        new = line[:a] + line[b:]
    elif fault == "<duplicate>":
        new = line[:b] + " " + t + line[b:]
    elif fault == "<swap>":
        m = TOKEN.search(line, b)
        if not m:
            return None
        new = line[:a] + m.group(0) + line[b:m.start()] + t + line[m.end():]
    else:
        new = line[:a] + fault + line[b:]
    if new == line:
        return None
    lines[li] = new
    return "\n".join(lines)


def classify_load(arch, text, allow_memory_errors=False, timeout=10):
    """Returns None if the outcome is well-typed, else (field, detail)."""
    sim = RiscvSimulation() if arch == "riscv" else ToySimulation()
    try:
        with watchdog(timeout):
            sim.load_program(text)
        return None
    except CaseTimeout:
        return ("load-does-not-terminate", f"load_program did not return within {timeout} s")
    except ParserException as e:
        n = e.line_number
        lines = EOL.split(text)
        if not isinstance(n, int) or isinstance(n, bool) or not (1 <= n <= len(lines)):
            return ("bad-line-number", f"{type(e).__name__} carries line_number={n!r}; the text has {len(lines)} lines")
        if not lines[n - 1].strip():
            return ("blank-line-number", f"{type(e).__name__} points at line {n}, which is blank")
        sys.last_value = e
        cls = webgui.get_last_error()
        if cls[0] != "ParserException" or cls[2] != n:
            return ("front-end-classification", f"front end classifies {type(e).__name__} as {cls[0]!r} / {cls[2:]!r}")
        return None
    except (MemoryAddressError, MemorySizeException) as e:
        if allow_memory_errors:
            return None
        return ("memory-error-for-fitting-program", f"{type(e).__name__} for a program that fits the simulated memory")
    except Exception as e:  # noqa
        sys.last_value = e
        return ("untyped-error", f"load_program raised {type(e).__name__}: {str(e)[:120]}")


def literal_kind(text_fragment):
    """Feature flags of the injected fault, for the signature."""
    return text_fragment


def inject_shard(shard):
    arch, bi, part, parts, pairs = shard
    base = (RV_BASES if arch == "riscv" else TOY_BASES)[bi]
    p = Partial()
    toks = tokens_of(base)
    faults = ["<delete>", "<duplicate>", "<swap>"] + REPLACEMENTS
    k = 0
    if not toks:
        toks = []
    # the base itself must load
    if part == 0:
        d = classify_load(arch, base)
        p.evaluations += 1
        if d:
            p.violation(dict(oracle="load-error-typing", arch=arch, field=d[0], fault="<none>"), dict(kind="text", arch=arch, text=base), f"{arch} base #{bi}: {d[1]}", size=(0,))
    for ti, tok in enumerate(toks):
        for fault in faults:
            k += 1
            if k % parts != part:
                continue
            text = mutate(base, tok, fault)
            if text is None:
                continue
            p.evaluations += 1
            d = classify_load(arch, text)
            sim_ok = d is None
            if fault not in ("<delete>", "<duplicate>", "<swap>"):
                p.nontrivial += 1
            if d:
                fl = fault if len(fault) < 12 else ("<4301-digit decimal>" if fault.lstrip("-") == BIGDEC else ("<100000-digit hex>" if fault == BIGHEX else fault[:12]))
                p.violation(dict(oracle="load-error-typing", arch=arch, field=d[0], fault=fl), dict(kind="text", arch=arch, text=text if len(text) < 3000 else None, base=bi, tok=ti, fault=fault if len(fault) < 100 else fl),
                            f"{arch} base #{bi}, token {ti} -> {fl!r}: {d[1]}; line: {text.split(chr(10))[tok[0]][:80]!r}", size=(len(base), ti, len(fault)))
            else:
                p.counters["typed-or-accepted"] += 1
            if fault in EOL_FAULTS:
                # the same faulty text with the other line endings an editor produces: the reported line must still exist
                for eol, eolname in (("\r\n", "CRLF"), ("\r", "CR")):
                    t2 = text.replace("\n", eol)
                    p.evaluations += 1
                    p.counters["other-line-endings"] += 1
                    d2 = classify_load(arch, t2)
                    if d2:
                        p.violation(dict(oracle="load-error-typing", arch=arch, field=d2[0], fault=fault, eol=eolname), dict(kind="text", arch=arch, text=t2, base=bi, tok=ti, fault=fault),
                                    f"{arch} base #{bi} with {eolname} line endings, token {ti} -> {fault!r}: {d2[1]}", size=(len(base), ti, len(fault)))
    if pairs:
        # all pairs of faults from a small alphabet on the shortest bases
        small = ["<delete>", ",", ":", "007", "0x", "nolabel", ".data", "#", "x32", "-"]
        for (t1, t2) in itertools.combinations(range(len(toks)), 2):
            for f1, f2 in itertools.product(small, repeat=2):
                k += 1
                if k % parts != part:
                    continue
                # apply the later token first so that offsets of the earlier one stay valid
                text = mutate(base, toks[t2], f2)
                if text is None:
                    continue
                text = mutate(text, toks[t1], f1) if toks[t1][0] != toks[t2][0] or toks[t1][2] <= toks[t2][1] else None
                if text is None:
                    continue
                p.evaluations += 1
                p.nontrivial += 1
                d = classify_load(arch, text)
                if d:
                    p.violation(dict(oracle="load-error-typing", arch=arch, field=d[0], fault=f"{f1}+{f2}"), dict(kind="text", arch=arch, text=text),
                                f"{arch} base #{bi}, tokens {t1},{t2} -> {f1!r},{f2!r}: {d[1]}", size=(len(base), t1, t2))
    if part == 0:
        p.sample(dict(kind="text", arch=arch, text=mutate(base, toks[min(3, len(toks) - 1)], "007") if toks else base))
    return p


VOCAB_RV = ["add", "x1", ",", "5", "lbl", ":", ".data", ".word", "(", ")", "lw", "-", "0x", '"a"']
VOCAB_TOY = ["LDA", "INC", "5", "0x1", "lbl", ":", ".data", ".word", ",", ".text", "-", "0x", "x", "BRZ"]


def soup_shard(shard):
    arch, n, first = shard
    vocab = VOCAB_RV if arch == "riscv" else VOCAB_TOY
    p = Partial()
    for tail in itertools.product(vocab, repeat=n - 1):
        toks = (vocab[first],) + tail
        for joiner in (" ", ""):
            line = joiner.join(toks)
            ok = "add x1, x1, x1" if arch == "riscv" else "INC"
            # the same line first at line 6 of a longer text, then in shorter texts: the outcome of a load must not depend on earlier loads
            earlier = []
            for wrap in (f"{ok}\n\n# c\n{ok}\n  \n{{l}}\n", "{l}\n", ".data\n{l}\n", "ok: " + ok + "\n{l}\n"):
                text = wrap.format(l=line)
                p.evaluations += 1
                p.nontrivial += 1
                d = classify_load(arch, text)
                if d:
                    # the case keeps the loads that preceded it in this process: the outcome may depend on them
                    p.violation(dict(oracle="load-error-typing", arch=arch, field=d[0], fault="token-soup"), dict(kind="text-sequence", arch=arch, texts=earlier + [text]),
                                f"{arch} {text!r}" + (f" (after loading {len(earlier)} other texts containing the same line)" if earlier else "") + f": {d[1]}", size=(n, len(text)))
                earlier.append(text)
    return p


CTRL_CHARS = ["\x0b", "\x0c", "\x1c", "\x1d", "\x1e", "\x85", "\u2028", "\u2029"]


def ctrl_shard(shard):
    """Characters at which str.splitlines() - but no editor - ends a line, inside comments and string literals: whatever the
    outcome, an error must name a line the text has (genuine defect D9: 'nop # a\\x0cb' was reported at line 2 of one line)."""
    arch = shard
    ok = "add x1, x1, x1" if arch == "riscv" else "INC"
    p = Partial()
    for c in CTRL_CHARS:
        texts = [f"{ok} # x{c}y", f"{ok}\n{ok} # x{c}y\n", f"{ok} # x{c}\n", f"# {c}{c} y\n{ok}\n", f"{ok} # a{c}b{c}c\nfoo bar\n"]
        if arch == "riscv":
            texts += [f'.data\ns: .string "a{c}b"\n.text\n{ok}\n', f'.data\ns: .string "a{c}b"\n.text\nfoo\n']
        for text in texts:
            p.evaluations += 1
            p.nontrivial += 1
            p.counters["control-character-in-a-comment-or-string"] += 1
            d = classify_load(arch, text)
            if d is None and "foo" not in text:
                # these texts are well-formed: they must load
                sim = RiscvSimulation() if arch == "riscv" else ToySimulation()
                try:
                    sim.load_program(text)
                except Exception as e:  # noqa
                    d = ("comment-changes-the-outcome", f"{type(e).__name__} at line {getattr(e, 'line_number', None)} for a well-formed text")
            if d:
                p.violation(dict(oracle="load-error-typing", arch=arch, field=d[0], fault="control-character"), dict(kind="text", arch=arch, text=text), f"{arch} {text!r}: {d[1]}", size=(len(text),))
    return p


def fit_cases():
    out = []
    out.append(("riscv", "nop\n" * 4096, False, "4096 instructions fit"))
    out.append(("riscv", "nop\n" * 4097, True, "4097 instructions do not fit"))
    out.append(("riscv", "li x1, 0x12345\n" * 2048, False, "2048 expanding li fit exactly"))
    out.append(("riscv", "li x1, 0x12345\n" * 2049, True, "2049 expanding li do not fit"))
    n = ((1 << 32) - (1 << 14)) // 4
    out.append(("riscv", f".data\nz: .zero {n - 1}\nw: .word 7\n", False, "data reaching 2^32 exactly"))
    out.append(("riscv", f".data\nz: .zero {n}\nw: .word 7\n", True, "data passing 2^32"))
    out.append(("riscv", f".data\nz: .zero {n - 1}\nw: .word 7, 8\n", True, "data passing 2^32 inside a declaration"))
    out.append(("toy", "NOP\n" * 4096, False, "4096 TOY words fit"))
    out.append(("toy", "NOP\n" * 4097, True, "4097 TOY words do not fit"))
    out.append(("toy", ".data\nv: .word " + ", ".join(["1"] * 4096) + "\n", False, "4096 data words fit"))
    out.append(("toy", ".data\nv: .word " + ", ".join(["1"] * 4097) + "\n", True, "4097 data words do not fit"))
    out.append(("toy", ".data\nv: .word " + ", ".join(["1"] * 4000) + "\n.text\n" + "NOP\n" * 96, False, "code and data fill the memory exactly"))
    out.append(("toy", ".data\nv: .word " + ", ".join(["1"] * 4000) + "\n.text\n" + "NOP\n" * 97, True, "data collides with code"))
    return out


def fit_shard(i):
    arch, text, may_fail, what = fit_cases()[i]
    p = Partial()
    p.evaluations += 1
    p.nontrivial += 1
    d = classify_load(arch, text, allow_memory_errors=may_fail, timeout=120)
    if d is None and not may_fail:
        # a program that fits must load without any error at all
        sim = RiscvSimulation() if arch == "riscv" else ToySimulation()
        try:
            sim.load_program(text)
        except Exception as e:  # noqa
            d = ("fitting-program-rejected", f"{what}: {type(e).__name__}")
    if d:
        p.violation(dict(oracle="load-error-typing", arch=arch, field=d[0], fault="does-not-fit" if may_fail else "fits"), dict(kind="fit", i=i), f"{what}: {d[1]}", size=(i,))
    p.sample(dict(kind="fit", what=what))
    return p


# ---- run-time errors -----------------------------------------------------------------------------------------
def check_runtime(prog, st, mode, dc, exp_err):
    """Run the program; returns ((field, detail) or None, whether a typed run-time error was raised)."""
    sim = rv.make_sim(mode, prog, st["regs"], st["words"], dcache=dc)
    err = None
    other = None
    try:
        n = 0
        while not sim.is_done() and n < 400:
            sim.step()
            n += 1
    except InstructionExecutionException as e:
        err = e
    except Exception as e:  # noqa
        other = e
    d = None
    if other is not None:
        d = ("untyped-runtime-error", f"step() raised {type(other).__name__}: {other}")
    elif err is not None:
        a = err.address
        if not isinstance(a, int) or a % 4 or not (0 <= a < 4 * len(prog)):
            d = ("bad-address", f"error carries address {a!r}")
        elif err.instruction_repr != repr(rv.impl_of(prog[a // 4], a)):
            d = ("bad-instruction-text", f"error at {a} carries {err.instruction_repr!r}, the instruction there prints as {rv.impl_of(prog[a // 4], a)!r}")
        elif dc is None and a != exp_err:
            d = ("wrong-address", f"error reported at {a}, the faulting instruction is at {exp_err}")
        else:
            sys.last_value = err
            cls = webgui.get_last_error()
            if cls[0] != "InstructionExecutionException" or cls[2] != a:
                d = ("front-end-classification", f"front end classifies the error as {cls[0]!r} / {cls[2:]!r}")
    elif dc is None and exp_err is not None:
        d = ("fault-not-reported", f"the program faults at {exp_err} but no error was raised")
    return d, err is not None


def runtime_shard(shard):
    seed, length, first = shard
    H = alpha.hazard_alphabet(seed, True) + [("lw", 1, 3, 0, 1), ("sh", 0, 3, 2, 3)]  # two misaligned accesses (rejected only with a data cache)
    st = alpha.init_states(seed, 1)[0]
    r3 = alpha.regs_for_seed(seed)[2]
    p = Partial()
    for tail in itertools.product(range(len(H)), repeat=length - 1):
        idx = (first,) + tail
        prog = []
        for i in idx:
            ins = H[i]
            if ins in (("lw", 1, 3, 0, 1), ("sh", 0, 3, 2, 3)):
                ins = (ins[0], ins[1], r3, ins[3], ins[4])
            prog.append(ins)
        pd = {4 * i: ins for i, ins in enumerate(prog)}
        r, m = rv.ref_state(st["regs"], st["words"])
        exp = rv32.run_seq(pd, r, m, 24)
        mis = any(ins[0] in ("lw", "sh") and ins[4] in (1, 3) for ins in prog)
        if exp.err is None and not mis:
            continue
        for mode in (rv.SINGLE, rv.FIVE):
            for dc in ((None, rv.cache_opts(1, 0, 1, "wt", "lru", 1)) if exp.err is None or mis else (None, rv.cache_opts(0, 1, 2, "wb", "plru", 0))):
                p.evaluations += 1
                p.nontrivial += 1
                d, raised = check_runtime(prog, st, mode, dc, exp.err)
                if raised:
                    p.counters["runtime-fault" + ("-with-cache" if dc is not None else "")] += 1
                if d:
                    p.violation(dict(oracle="runtime-error-typing", field=d[0]), dict(kind="runtime", prog=[list(i) for i in prog], seed=seed, mode=mode, cache=dc is not None),
                                f"[{rv.prog_text(prog)}] {mode} cache={'on' if dc is not None else 'off'}: {d[1]}", size=(length, idx))
    return p


UNIMPL = ["ebreak\n", "fence x1, x2\n", "csrrw x1, 0x300, x2\n", "csrrs x1, 0x305, x0\n", "csrrwi x1, 0x340, 5\n", "addi x1, x0, 1\nebreak\naddi x2, x0, 2\n",
          "csrrc x1, 0xC00, x2\naddi x2, x0, 2\n", "csrrsi x3, 0x001, 31\n", "csrrw x1, 0xFFF, x2\n", "csrrw x1, 4096, x2\n"]


def unimpl_shard(i):
    p = Partial()
    for mode in (rv.SINGLE, rv.FIVE):
        sim = RiscvSimulation(mode=mode)
        p.evaluations += 1
        p.nontrivial += 1
        try:
            sim.load_program(UNIMPL[i])
            n = 0
            while not sim.is_done() and n < 50:
                sim.step()
                n += 1
        except (InstructionExecutionException, ParserException):
            p.counters["unimplemented-typed"] += 1
        except Exception as e:  # noqa
            p.violation(dict(oracle="runtime-error-typing", field="untyped-runtime-error"), dict(kind="unimpl", i=i, mode=mode), f"{UNIMPL[i]!r} in {mode}: {type(e).__name__}: {e}", size=(i,))
    return p


def hard_texts():
    """Lines built to make a careless lexer slow: long prefixes in front of an unbalanced quote, long runs of one character,
    long comments. (arch, text)"""
    out = []
    long_name = "a_rather_long_name_for_the_greeting_message_of_this_program"
    for arch, decl, ins in (("riscv", ".string", "addi x1, x0, 1"), ("toy", ".word", "INC")):
        for n in (24, 40, 57):
            nm = long_name[:n]
            out.append((arch, f'.data\n        {nm}: {decl} "Hello, World\n.text\n{ins}\n'))
            out.append((arch, f'{ins}   # {"x" * n} "unbalanced\n{ins} "{"y" * n}\n'))
            out.append((arch, f'{ins}\n{" " * (4 * n)}{nm} "\n'))
        out.append((arch, f'{ins} {"," * 200}\n'))
        out.append((arch, f'{ins} {"(" * 120}{")" * 120}\n'))
        out.append((arch, f'{"l" * 300}: {ins}\n{ins} # {"#" * 400}\n'))
        out.append((arch, f'{ins}\n{"-" * 150}1\n'))
        out.append((arch, f'{ins} {"0x" * 100}\n'))
    return out


HARD_LIMIT = 30


def hard_case(k):
    """The load runs in its own interpreter and is killed after HARD_LIMIT seconds: an in-process alarm cannot interrupt a
    regular-expression or pyparsing call that never returns to the interpreter loop."""
    import subprocess
    from vf.engine import fresh
    arch, text = hard_texts()[k]
    try:
        res = fresh.run_scenario([], ["rv_image" if arch == "riscv" else "toy_image", text], timeout=HARD_LIMIT)
    except subprocess.TimeoutExpired:
        return ("termination", f"{arch}: load_program({text[:90]!r}...) did not return within {HARD_LIMIT} s (own interpreter, killed)")
    if "error" in res and res["error"] not in ("ParserSyntaxException", "ParserLabelException", "ParserVariableException", "ParserDirectiveException", "ParserOddImmediateException",
                                               "DuplicateLabelException", "ParserException") and "Parser" not in res["error"] and "Label" not in res["error"]:
        return ("untyped-error", f"{arch}: load_program({text[:90]!r}...) raised {res['error']}: {res.get('text', '')[:120]}")
    return None


def hard_shard(shard):
    k = shard
    p = Partial()
    p.evaluations += 1
    p.nontrivial += 1
    p.counters["load-in-its-own-interpreter-with-a-kill-timeout"] += 1
    d = hard_case(k)
    if d:
        p.violation(dict(oracle="load-error-typing", arch=hard_texts()[k][0], field=d[0]), dict(kind="hard", k=k), d[1], size=(k,))
    return p


def replay(case):
    k = case["kind"]
    if k == "hard":
        d = hard_case(case["k"])
        return [(dict(oracle="load-error-typing", arch=hard_texts()[case["k"]][0], field=d[0]), d[1])] if d else []
    if k == "text-sequence":
        d = None
        for text in case["texts"]:
            d = classify_load(case["arch"], text)
        return [(dict(oracle="load-error-typing", arch=case["arch"], field=d[0]), d[1])] if d else []
    if k == "text":
        text = case.get("text")
        if text is None:
            base = (RV_BASES if case["arch"] == "riscv" else TOY_BASES)[case["base"]]
            f = case["fault"]
            f = {"<4301-digit decimal>": BIGDEC, "<100000-digit hex>": BIGHEX}.get(f, f)
            text = mutate(base, tokens_of(base)[case["tok"]], f)
        d = classify_load(case["arch"], text)
        return [(dict(oracle="load-error-typing", arch=case["arch"], field=d[0]), d[1])] if d else []
    if k == "fit":
        part = fit_shard(case["i"])
    elif k == "unimpl":
        part = unimpl_shard(case["i"])
    else:
        prog = [tuple(i) for i in case["prog"]]
        st = alpha.init_states(case["seed"], 1)[0]
        pd = {4 * i: ins for i, ins in enumerate(prog)}
        r, m = rv.ref_state(st["regs"], st["words"])
        exp = rv32.run_seq(pd, r, m, 24)
        mis = any(ins[0] in ("lw", "sh") and ins[4] in (1, 3) for ins in prog)
        if not case["cache"]:
            dc = None
        else:
            dc = rv.cache_opts(1, 0, 1, "wt", "lru", 1) if exp.err is None or mis else rv.cache_opts(0, 1, 2, "wb", "plru", 0)
        d, _r = check_runtime(prog, st, case["mode"], dc, exp.err)
        return [(dict(oracle="runtime-error-typing", field=d[0]), d[1])] if d else []
    return [(lst[0][1], lst[0][3]) for _k, (n, lst) in part.viol.items()]


def run(ctx):
    thorough = not ctx.quick
    ctx.rule = ("(a) single-fault injection, exhaustive: every token position of 12 RISC-V and 6 TOY base programs (covering every line kind) x the fault alphabet "
                "{delete, duplicate, swap with neighbour, replace by each of 46 strings: punctuation, odd literals such as 007 / 0x / 0b2 / 1e3 / non-ASCII digits / "
                "a 4301-digit decimal / a 100000-digit hex literal, unknown label / variable / directive, misplaced directives and declarations}; thorough adds all "
                "pairs of faults from a 10-fault alphabet on the short bases. (b) token soups: every line of up to 3 (4) tokens over a 14-token vocabulary, alone, in "
                "a data segment and after a valid line. (c) does-not-fit inputs at the exact capacity boundaries. (d) run time: every program up to length 3 over the "
                "hazard alphabet plus two misaligned accesses that faults (golden model) or contains a misaligned access, in both modes with and without a data cache; "
                "unimplemented instructions. Oracle: load succeeds or raises a ParserException whose line_number is an int naming an existing non-blank line; "
                "MemoryAddressError / MemorySizeException only for (c); loading terminates (10 s watchdog); run-time failures are InstructionExecutionException with the "
                "faulting address and the printed form of the instruction stored there; the front end's get_last_error() classifies each as expected. Non-trivial = "
                "replacement faults, soups, (c), (d).")
    nb_rv = len(RV_BASES)
    nb_toy = len(TOY_BASES)
    t0 = time.time()
    shards = []
    for bi in range(nb_rv):
        parts = 16 if len(RV_BASES[bi]) > 150 else 2
        shards += [("riscv", bi, part, parts, False) for part in range(parts)]
    for bi in range(nb_toy):
        parts = 8 if len(TOY_BASES[bi]) > 100 else 2
        shards += [("toy", bi, part, parts, False) for part in range(parts)]
    part = pmap(inject_shard, shards)
    ctx.space("single-fault-injection", part, t0, riscv_bases=nb_rv, toy_bases=nb_toy, faults=3 + len(REPLACEMENTS))
    if thorough:
        t0 = time.time()
        shards = [("riscv", bi, part, 16, True) for bi in (2, 4, 5, 8, 10) for part in range(16)] + [("toy", bi, part, 16, True) for bi in (1, 3, 5) for part in range(16)]
        part = pmap(inject_shard, shards)
        ctx.space("double-fault-injection", part, t0)
    for n in range(1, (3 if ctx.quick else 4) + 1):
        t0 = time.time()
        part = pmap(soup_shard, [(arch, n, f) for arch in ("riscv", "toy") for f in range(14)])
        ctx.space(f"token-soups-{n}", part, t0, vocabulary=14, tokens=n)
    t0 = time.time()
    part = pmap(ctrl_shard, ["riscv", "toy"])
    ctx.space("control-characters-in-comments-and-strings", part, t0, characters=[repr(c) for c in CTRL_CHARS])
    ctx.require("control-character-in-a-comment-or-string")
    t0 = time.time()
    part = pmap(fit_shard, list(range(len(fit_cases()))))
    ctx.space("does-not-fit", part, t0)
    t0 = time.time()
    part = pmap(hard_shard, list(range(len(hard_texts()))))
    ctx.space("lexer-stress-lines-with-a-kill-timeout", part, t0, texts=len(hard_texts()), limit_s=HARD_LIMIT,
              note="each load in its own interpreter, killed after the limit (an in-process watchdog cannot interrupt a call that never returns to the interpreter loop)")
    ctx.require("load-in-its-own-interpreter-with-a-kill-timeout")
    t0 = time.time()
    nsym = len(alpha.hazard_alphabet(ctx.seed, True)) + 2
    shards = [(ctx.seed, L, f) for L in (1, 2, 3) for f in range(nsym)]
    part = pmap(runtime_shard, shards)
    part.merge(pmap(unimpl_shard, list(range(len(UNIMPL)))))
    ctx.space("run-time-errors", part, t0)
    ctx.require("other-line-endings", "typed-or-accepted", "runtime-fault", "runtime-fault-with-cache", "unimplemented-typed")
