"""C03 — the data cache is transparent (BFS over access histories + programs with the cache on)."""
from __future__ import annotations

import itertools
import time

from vf.adapt import rv
from vf.checks import cachebfs, cachecfg
from vf.checks.cachebfs import Cfg
from vf.engine.core import Partial, pmap
from vf.ref import rv32

ID = "C03"
LEVEL = "model_checking"
BASE = rv32.MINADDR
WANT = ("transparency",)


# ---- program clause -----------------------------------------------------------------------------------
def mem_alphabet():
    """Memory alphabet: all load/store mnemonics at 6 aligned addresses conflicting in one set, addi, print-string ecall."""
    A = []
    offs = [0, 4, 64, 68, 128, 192]
    k = 0
    for op in ("lw", "lh", "lhu", "lb", "lbu"):
        off = offs[k % 6] + (0 if op == "lw" else (2 if op in ("lh", "lhu") else 1 + k % 3))
        A.append((op, 5 + k % 3, 3, 0, off))
        k += 1
    for op in ("sw", "sh", "sb"):
        off = offs[(k + 1) % 6] + (0 if op == "sw" else (2 if op == "sh" else 3))
        A.append((op, 0, 3, 5 + k % 2, off))
        k += 1
    A += [("lw", 5, 3, 0, 0), ("sw", 0, 3, 6, 0), ("lw", 6, 3, 0, 64), ("sw", 0, 3, 5, 128), ("sb", 0, 3, 6, 65), ("lbu", 7, 3, 0, 129),
          ("addi", 5, 5, 0, 1), ("addi", 17, 0, 0, 4), ("add", 10, 3, 0, 0), ("ecall", 0, 0, 0, 0),
          ("beq", 0, 0, 0, 8), ("jal", 28, 0, 0, 8),  # wrong-path loads/stores behind a taken branch / jump
          ("sw", 0, 0, 6, -4), ("lw", 7, 0, 0, -4)]   # the last word of the address space through a negative effective address
    return A


PROG_REGS = {3: BASE, 5: 0x11223344, 6: 0xA1B2C3D4, 17: 1, 10: 7}
PROG_WORDS = {BASE: 0x00434241, BASE + 4: 0x80FF7F01, BASE + 64: 0xCAFEBABE, BASE + 68: 5, BASE + 128: 0x0000FFFF, BASE + 192: 0x12345678}
PROG_CACHES = [(0, 0, 1, "wb", "lru"), (0, 0, 2, "wt", "lru"), (1, 0, 2, "wb", "plru"), (0, 1, 1, "wt", "lru"), (2, 1, 1, "wb", "lru"), (1, 1, 2, "wt", "plru")]


def prog_shard(shard):
    length, first, ncfg = shard
    A = mem_alphabet()
    p = Partial()
    for tail in itertools.product(range(len(A)), repeat=length - 1):
        idx = (first,) + tail
        prog = [A[i] for i in idx]
        # programs with an ecall are also run with a7 = 4 and a0 = a string address preset (a print-string right behind stores)
        for regs_in in ((PROG_REGS, STR_REGS) if any(i[0] == "ecall" for i in prog) else (PROG_REGS,)):
            one_program(p, prog, idx, regs_in, ncfg)
    if first == 0:
        p.sample(dict(kind="cached-program", prog=[list(A[(2 * i) % len(A)]) for i in range(length)], cache=list(PROG_CACHES[0])))
    return p


STR_REGS = {**PROG_REGS, 17: 4, 10: BASE + 64}


def one_program(p, prog, idx, regs_in, ncfg):
    length = len(prog)
    if True:
        pd = {4 * i: ins for i, ins in enumerate(prog)}
        r, m = rv.ref_state(regs_in, PROG_WORDS)
        exp = rv32.run_seq(pd, r, m, 40)
        for ci in range(ncfg):
            ib, bb, ways, kind, policy = PROG_CACHES[ci]
            for mode in (rv.SINGLE, rv.FIVE):
                sim = rv.make_sim(mode, prog, regs_in, PROG_WORDS, dcache=rv.cache_opts(ib, bb, ways, kind, policy, 3))
                got = rv.run(sim, 400)
                p.evaluations += 1
                bad = []
                if got.exc is not None:
                    bad.append(("exception", got.exc))
                else:
                    if got.err != exp.err:
                        bad.append(("fault", f"uncached run faults at {exp.err}, cached run at {got.err}"))
                    if got.regs != exp.regs:
                        d = [(i, hex(exp.regs[i]), hex(got.regs[i])) for i in range(32) if exp.regs[i] != got.regs[i]]
                        bad.append(("reg", f"registers differ (index, uncached, cached): {d[:3]}"))
                    if got.out != exp.out or got.exit != exp.exit:
                        bad.append(("out", f"output/exit uncached {exp.out!r}/{exp.exit} cached {got.out!r}/{got.exit}"))
                    if exp.err is None and got.mem != exp.mem:
                        bad.append(("mem", "logical memory contents differ from the uncached run"))
                for f, d in bad:
                    p.violation(dict(oracle="cached-program", field=f), dict(kind="cached-program", prog=[list(i) for i in prog], cache=[ib, bb, ways, kind, policy], mode=mode, str_regs=regs_in is STR_REGS),
                                f"[{rv.prog_text(prog)}]{' a7=4 a0=string' if regs_in is STR_REGS else ''} {kind}/{policy} i{ib}b{bb}w{ways} {mode}: {d}", size=(length, idx, ci))
        if exp.loads + exp.stores > 1:
            p.nontrivial += 1
        if "print" in exp.events:
            p.counters["print-string"] += 1
            if exp.stores:
                p.counters["print-string-behind-a-store"] += 1
        if exp.err is not None:
            p.counters["fault"] += 1


# ---- declared data: what the assembler preloads is what a cached program reads -------------------------------------
DECL_CACHES = PROG_CACHES + [(0, 2, 1, "wb", "lru"), (0, 1, 2, "wb", "plru"), (1, 2, 2, "wt", "lru")]


def decl_texts():
    """Data segments mixing every declaration kind (strings of length 0..5 in front of other variables, so that a
    terminator shares a cache block with the next variable), each followed by loads of every element and a few stores."""
    out = []
    for n in range(6):
        st = "abcde"[:n]
        data = [f's: .string "{st}"', "w: .word 0x11223344, -2", "b: .byte 1, -1, 3", f't: .string "{st[::-1]}x"', "h: .half 0x1234, -5, 7", "z: .zero 2", "q: .word 9"]
        for rot in (0, 3):
            d = data[rot:] + data[:rot]
            body = []
            r = 5
            for name, mn, cnt in (("s", "lbu", n + 1), ("w", "lw", 2), ("b", "lb", 3), ("t", "lbu", n + 2), ("h", "lh", 3), ("z", "lw", 2), ("q", "lw", 1)):
                for i in range(cnt):
                    body.append(f"{mn} x{r}, {name}[{i}]")
                    r = r + 1 if r < 31 else 5
            body += ["sw x6, q, x4", "sb x7, s, x4", "lw x28, q", "lbu x29, s", "lw x30, w[1]", "lh x31, h[2]"]
            out.append(".data\n" + "\n".join(d) + "\n.text\n" + "\n".join(body) + "\n")
    return out


def decl_case(ti, ci, mode):
    from architecture_simulator.simulation.riscv_simulation import RiscvSimulation
    text = decl_texts()[ti]
    ib, bb, ways, kind, policy = DECL_CACHES[ci]
    res = []
    for cached in (False, True):
        sim = RiscvSimulation(mode=mode, **({"data_cache": rv.cache_opts(ib, bb, ways, kind, policy, 1)} if cached else {}))
        sim.load_program(text)
        r = rv.run(sim, 600)
        # the data segment read word by word through the memory system (uncounted), after the run
        words = [int(sim.state.memory.read_word(a, False)) for a in range(rv.BASE, rv.BASE + 96, 4)]
        res.append((r.regs, r.err, r.exc, r.done, words))
    (r0, e0, x0, d0, w0), (r1, e1, x1, d1, w1) = res
    if (e0, x0, d0) != (e1, x1, d1):
        return f"run outcome differs: uncached (err, exc, done) {(e0, x0, d0)}, cached {(e1, x1, d1)}"
    if r0 != r1:
        k = next(i for i in range(32) if r0[i] != r1[i])
        return f"x{k} = {r1[k]:#x}, uncached run {r0[k]:#x}"
    if w0 != w1:
        k = next(i for i in range(len(w0)) if w0[i] != w1[i])
        return f"word at {rv.BASE + 4 * k:#x} reads {w1[k]:#x} after the run, uncached {w0[k]:#x}"
    return None


def decl_shard(shard):
    ti = shard
    p = Partial()
    for ci in range(len(DECL_CACHES)):
        for mode in (rv.SINGLE, rv.FIVE):
            p.evaluations += 1
            p.nontrivial += 1
            p.counters["declared-data-through-a-cache"] += 1
            d = decl_case(ti, ci, mode)
            if d:
                p.violation(dict(oracle="declared-data", field="differs-from-uncached"), dict(kind="declared-data", ti=ti, ci=ci, mode=mode),
                            f"{decl_texts()[ti]!r} [{'/'.join(map(str, DECL_CACHES[ci]))}] {mode}: {d}", size=(ti, ci))
    p.sample(dict(kind="declared-data", text=decl_texts()[ti]))
    return p


def replay(case):
    if case["kind"] == "declared-data":
        d = decl_case(case["ti"], case["ci"], case["mode"])
        return [(dict(oracle="declared-data", field="differs-from-uncached"), d)] if d else []
    if case["kind"] in ("cache-history", "cache-deep-path"):
        return cachebfs.replay(case)
    prog = [tuple(i) for i in case["prog"]]
    ib, bb, ways, kind, policy = case["cache"]
    pd = {4 * i: ins for i, ins in enumerate(prog)}
    regs_in = STR_REGS if case.get("str_regs") else PROG_REGS
    r, m = rv.ref_state(regs_in, PROG_WORDS)
    exp = rv32.run_seq(pd, r, m, 40)
    sim = rv.make_sim(case["mode"], prog, regs_in, PROG_WORDS, dcache=rv.cache_opts(ib, bb, ways, kind, policy, 3))
    got = rv.run(sim, 400)
    res = []
    if got.exc is not None or got.err != exp.err or got.regs != exp.regs or got.out != exp.out or got.exit != exp.exit or (exp.err is None and got.mem != exp.mem):
        res.append((dict(oracle="cached-program", field="replay"), f"cached run differs from the uncached reference: {got.exc or ''}"))
    return res


def configs(ctx):
    """(Cfg, depth) list for this tier."""
    seed = ctx.seed
    out = []
    if ctx.quick:
        for k, (g, kind, policy) in enumerate(cachecfg.quick_configs(seed)):
            pre = (k + seed) % 2 == 1
            variant = ("base", "top", "neg", "big")[(k + seed) % 4] if k % 3 == 0 else "base"
            out.append((Cfg(*g, kind, policy, 0, "full", pre, variant), 3 if g[1] == 0 or g[2] == 1 else 2))
            out.append((Cfg(*g, kind, policy, 0, "word", not pre, "mixed" if k % 2 == 0 else "base"), 5 if len(Cfg(*g, kind, policy).words) <= 4 else (4 if g[0] == 0 else 3)))
    else:
        for k, (g, kind, policy) in enumerate(cachecfg.thorough_configs()):
            for pre in (False, True):
                variant = ("base", "top", "neg", "big")[(k + seed + int(pre)) % 4]
                out.append((Cfg(*g, kind, policy, 0, "full", pre, variant), 3 if (g[2] >= 4 or g == (1, 1, 2)) else 4))
            out.append((Cfg(*g, kind, policy, 0, "word", k % 2 == 0, "mixed" if k % 2 else "base"), 6 if g[2] <= 2 else 5))
        out.append((Cfg(12, 1, 1, "wb", "lru", 0, "word", False, "base"), 2))
        out.append((Cfg(12, 1, 2, "wt", "plru", 0, "word", True, "base"), 2))
    return out


def run(ctx):
    ctx.rule = ("BFS over histories of byte/half/word reads and writes (counted and uncounted, every byte offset incl. accesses that cross a word "
                "boundary) on a real write-back / write-through memory system obtained from RiscvSimulation(data_cache=...), replayed on fresh "
                "objects, deduplicated on a canonical form of the real object + flat store. Oracle: flat byte dictionary — every accepted read "
                "returns the flat value, every crossing access raises, and after every transition all universe bytes read back equal the flat "
                "store. 'full' alphabet to depth 3 (4), word/byte sub-alphabet to depth 5 (6). Program clause: every program up to a length bound "
                "over a memory alphabet under 6 cache configurations in both pipeline modes equals the golden (uncached) run. Non-trivial = "
                "history with an eviction or a rejected access / program with at least two memory accesses.")
    ctx.assumptions += [
        "a backing-store cell holding 0 is merged with an absent cell in the state key (reads cannot tell them apart)",
        "counter values are excluded from the state key (checked per transition by C09) except for zero / non-zero",
        "write values are one distinctive constant per width plus a second byte value; the 'wordz' configurations add stores of 0 and run over a sparsely preloaded backing store",
    ]
    for cfg, depth in configs(ctx):
        cachebfs.explore(ctx, cfg, WANT, depth, state_cap=600000)
    if ctx.quick:
        # a partially filled 4-way tree-PLRU set fills its ways in the order 0, 2, 1, 3
        cachebfs.explore(ctx, Cfg(0, 0, 4, "wb", "plru", 0, "word", False, "base"), WANT, 4)
        cachebfs.explore(ctx, Cfg(0, 0, 4, "wt", "plru", 0, "word", True, "base"), WANT, 4)
        # the only kind of geometry in which tag 0 (the tag of a never-filled way) belongs to a valid data address
        cachebfs.explore(ctx, Cfg(12, 1, 1, ("wb", "wt")[ctx.seed % 2], "lru", 0, "word", False, "base"), WANT, 1)
    # stores of the value 0 over a sparsely preloaded store (only every other word exists below the cache)
    for kind, g, depth in (("wb", (0, 1, 1), 4), ("wb", (1, 1, 2), 3), ("wt", (0, 1, 2), 3), ("wb", (0, 2, 1), 3)) + ((("wb", (0, 1, 2), 4), ("wt", (1, 1, 1), 4)) if not ctx.quick else ()):
        cachebfs.explore(ctx, Cfg(*g, kind, "lru", 0, "wordz", 2, "base"), WANT, depth + (0 if ctx.quick else 1))
    t0 = time.time()
    part = pmap(decl_shard, list(range(len(decl_texts()))))
    ctx.space("declared-data-through-caches", part, t0, texts=len(decl_texts()), cache_configs=len(DECL_CACHES), modes=2,
              note="data segments with every declaration kind, loaded element by element and stored to, cached vs. uncached")
    ctx.require("declared-data-through-a-cache")
    ctx.require("print-string-behind-a-store")
    ctx.require("cache-eviction", "cache-fill", "rejected")
    cachebfs.deep_paths(ctx, WANT)
    for L in range(1, (3 if ctx.quick else 4) + 1):
        t0 = time.time()
        part = pmap(prog_shard, [(L, f, 6) for f in range(len(mem_alphabet()))])
        ctx.space(f"cached-programs-len{L}", part, t0, length=L, cache_configs=6, modes=2)
