"""C20 — TOY two-phase stepping: whole steps and half-cycle steps are equivalent (BFS to closure per program)."""
from __future__ import annotations

import copy
import itertools
import time

from architecture_simulator.simulation.runtime_errors import StepSequenceError

from vf.adapt import toy
from vf.checks.c06 import alphabet
from vf.engine.canon import canon
from vf.engine.core import Partial, digest, pmap
from vf.ref.toy import ToyRef, text

ID = "C20"
LEVEL = "model_checking"
OPS = ("step", "first_cycle_step", "second_cycle_step", "single_step")
SKIP = {"_start", "_execution_time_s"}


def full_view(sim):
    """Everything the property names: state, counters, table markers, visualisation values."""
    return (canon(sim.__dict__, None, SKIP), sim.get_memory_table_entries(), sim.get_toy_svg_update_values(),
            sim.get_register_representations(), sim.is_done())


def view(sim):
    """Observable results only (registers, memory table with markers, visualisation values, metrics, done): comparisons use
    this; the raw canonical state (full_view) is only the deduplication key."""
    from vf.adapt import inspect as insp
    return insp.observables(sim)


def half_state(sim):
    st = sim.state
    pm = st.performance_metrics
    return (int(st.accu), int(st.program_counter), pm.instruction_count, pm.cycles, pm.branch_count,
            tuple(sorted((a, int(v)) for a, v in toy._cells(sim) if int(v))))


def ref_half_state(ref):
    return (ref.accu, ref.nxt, ref.count, ref.cycles, ref.branches, tuple(sorted((a, v) for a, v in ref.mem.items() if v)))


def explore_program(words, data, accu, cap, p, tag, size=None):
    """BFS over call sequences on one program until no new state appears (or the instruction cap is hit)."""
    # whole-step run: the boundary states every other schedule must reproduce
    whole = toy.make_toy(words, data, accu, size)
    boundary = [digest(view(whole))]
    n = 0
    while not whole.is_done() and n < cap + 2:
        whole.step()
        n += 1
        boundary.append(digest(view(whole)))
    sim0 = toy.make_toy(words, data, accu, size)
    ref0 = ToyRef(words, data, accu)
    seen = {digest(full_view(sim0))}
    frontier = [((), sim0, ref0)]
    cut = False
    while frontier:
        nxt = []
        for hist, sim, ref in frontier:
            if ref.count >= cap:
                cut = True
                continue
            before = view(sim)
            for oi, op in enumerate(OPS):
                s2 = copy.deepcopy(sim)
                r2 = copy.deepcopy(ref)
                h2 = hist + (oi,)
                p.transitions += 1
                p.evaluations += 1
                raised = None
                try:
                    getattr(s2, op)()
                except StepSequenceError as e:
                    raised = e
                except Exception as e:  # noqa
                    p.violation(dict(oracle="two-phase", field="exception"), dict(kind="toy-steps", words=list(words), data={str(k): v for k, v in data.items()}, accu=accu, hist=list(h2), size=size),
                                f"{tag} calls {[OPS[i] for i in h2]}: {type(e).__name__}: {e}", size=(len(h2), h2))
                    continue
                bad = []
                done = r2.done()
                legal = done or (op == "single_step") or (op in ("step", "first_cycle_step") and r2.phase == 1) or (op == "second_cycle_step" and r2.phase == 2)
                if op == "step" and r2.phase == 2:
                    legal = False
                if not legal:
                    p.counters["illegal-call"] += 1
                    if raised is None:
                        bad.append(("illegal-call-accepted", f"{op} in phase {r2.phase} did not raise a sequencing error"))
                    if view(s2) != before:
                        bad.append(("illegal-call-changed-state", f"{op} in phase {r2.phase} changed the state"))
                else:
                    if raised is not None:
                        bad.append(("legal-call-rejected", f"{op} in phase {r2.phase} (done={done}) raised {raised!r}"))
                    elif done:
                        p.counters["call-after-done"] += 1
                        if view(s2) != before:
                            bad.append(("not-a-noop-when-done", f"{op} after the program finished changed the state"))
                    else:
                        if op == "step":
                            r2.step()
                        elif r2.phase == 1:
                            r2.first_half()
                        else:
                            r2.second_half()
                        if half_state(s2) != ref_half_state(r2):
                            bad.append(("half-step-state", f"after {op}: (accu, pc, instructions, cycles, branches, memory) {str(half_state(s2))[:120]} vs reference {str(ref_half_state(r2))[:120]}"))
                        elif r2.phase == 1:
                            # instruction boundary: identical to the whole-step run at the same instruction count
                            p.counters["boundary"] += 1
                            if r2.count < len(boundary) and digest(view(s2)) != boundary[r2.count]:
                                bad.append(("boundary-differs", f"state / table markers / visualisation values after {r2.count} instructions differ from the whole-step run"))
                for f, d in bad:
                    p.violation(dict(oracle="two-phase", field=f), dict(kind="toy-steps", words=list(words), data={str(k): v for k, v in data.items()}, accu=accu, hist=list(h2), size=size),
                                f"{tag} calls {[OPS[i] for i in h2]}: {d}", size=(len(h2), h2))
                k = digest(full_view(s2))
                if k not in seen:
                    seen.add(k)
                    nxt.append((h2, s2, r2))
        frontier = nxt
        if p.viol and len(seen) > 400:
            break
    p.states += len(seen)
    p.traces += 1
    if cut:
        p.counters["cut-at-instruction-cap"] += 1
    else:
        p.counters["closed"] += 1
    return len(seen), cut


def replay(case):
    words, accu, hist = case["words"], case["accu"], case["hist"]
    data = {int(k): v for k, v in case["data"].items()}
    p = Partial()
    # re-explore this program up to the length of the failing call sequence
    explore_program(words, data, accu, len(hist) + 2, p, "replay", case.get("size"))
    return [(lst[0][1], lst[0][3]) for _k, (n, lst) in p.viol.items()]


DATA = {4095: 0x2001}


def shard_fn(shard):
    length, first, cap = shard
    A = alphabet()
    p = Partial()
    if length == 0:
        explore_program([], {}, 0, cap, p, "[empty program]")
        p.nontrivial += 0
        return p
    for tail in itertools.product(range(len(A)), repeat=length - 1):
        idx = (first,) + tail
        words = [A[i] for i in idx]
        for accu in (0, 1):
            n, cut = explore_program(words, DATA, accu, cap, p, f"[{'; '.join(text(w) for w in words)}] accu={accu}")
            if n > 3:
                p.nontrivial += 1
    if first == 0:
        p.sample(dict(kind="toy-steps", words=[A[1], A[9]], accu=0, hist=[1, 0, 3, 2]))
    return p


EXAMPLES = [
    ([0x1FFF, 0x200B, 0x1FFE, 0x3FFF, 0x0FFE, 0x1FFF, 0xA000, 0x0FFF, 0x200B, 0xB000, 0x2002], {0xFFF: 10, 0xFFE: 0}),
    ([0x1003, 0x9000, 0x0003, 0x1FFE, 0x0FFD], {0xFFE: 3, 0xFFF: 4, 0xFFD: 0}),
    ([0x1FFD, 0x4FFC, 0x2005, 0xB000, 0x2007, 0x9000, 0x0FFB], {0xFFD: 7, 0xFFE: 15, 0xFFF: 3, 0xFFC: 7, 0xFFB: 0}),
]


SMALL = [(4, [0x9000, 0x9000, 0x9000], {}, 0), (8, [0x2007, 0x9000], {}, 0), (8, [0x2007, 0x9000], {}, 1),
         (8, [0x1007, 0x0006, 0x2007], {7: 0}, 5), (16, [0x300F, 0x000E, 0x200F, 0x9000], {15: 1}, 0xFFFF), (2, [0x9000], {}, 0)]


def small_shard(k):
    """Machines created with a small memory: programs that end at (or branch to) the last word of the memory."""
    size, words, data, accu = SMALL[k]
    p = Partial()
    explore_program(words, data, accu, 30, p, f"memory of {size} words, [{'; '.join(text(w) for w in words)}] accu={accu}", size)
    p.nontrivial += 1
    p.counters["small-memory"] += 1
    return p


def example_shard(shard):
    p = Partial()
    words, data = EXAMPLES[shard]
    n, cut = explore_program(words, data, 0, 400, p, f"help-page example {shard + 1}")
    p.nontrivial += 1
    return p


def run(ctx):
    ctx.rule = ("Per program: BFS over sequences of {step, first_cycle_step, second_cycle_step, single_step} (legal and illegal, offered in every reached "
                "state) on the real ToySimulation until no new state appears; states deduplicated on the complete canonical snapshot (state, counters, "
                "next-cycle flag, memory-table rows with markers, visualisation values, register representations). Oracle: reference automaton (phase 1/2) "
                "driving the TOY reference machine by half instructions: legal calls advance it, illegal calls raise StepSequenceError and leave the snapshot "
                "unchanged, every call after done is a no-op; at every instruction boundary the snapshot equals the whole-step run at the same instruction "
                "count. Programs: all programs up to a length bound over the 40-word alphabet of C06 x accu in {0,1}, the empty program, the help-page "
                "examples. Non-trivial = program whose closed space has more than 3 states.")
    ctx.assumptions += ["non-terminating programs are cut at an instruction cap and reported as cut (event counter cut-at-instruction-cap)"]
    cap = 24 if ctx.quick else 60
    n = len(alphabet())
    t0 = time.time()
    part = pmap(shard_fn, [(0, 0, cap)])
    ctx.space("empty-program", part, t0)
    for L in range(1, (2 if ctx.quick else 3) + 1):
        t0 = time.time()
        part = pmap(shard_fn, [(L, f, cap) for f in range(n)])
        ctx.space(f"programs-len{L}", part, t0, length=L, instruction_cap=cap, closed_programs=part.counters.get("closed", 0),
                  cut_programs=part.counters.get("cut-at-instruction-cap", 0))
    t0 = time.time()
    part = pmap(example_shard, [0, 1, 2])
    ctx.space("help-page-examples", part, t0)
    t0 = time.time()
    part = pmap(small_shard, list(range(len(SMALL))))
    ctx.space("small-memories", part, t0, sizes=sorted({s_[0] for s_ in SMALL}))
    ctx.require("illegal-call", "call-after-done", "boundary", "closed", "small-memory")
