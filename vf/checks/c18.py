"""C18 — flat memory is a little-endian byte store with wrap-around and range checks (BFS over histories)."""
from __future__ import annotations

import time

from architecture_simulator.isa.parser_exceptions import ParserException
from architecture_simulator.simulation.riscv_simulation import RiscvSimulation
from architecture_simulator.simulation.toy_simulation import ToySimulation
from architecture_simulator.uarch.memory.memory import MemoryAddressError

import fixedint

from vf.engine.bfs import bfs
from vf.engine.canon import canon
from vf.engine.core import Partial, digest
from vf.ref.rv32 import MINADDR as BASE

ID = "C18"
LEVEL = "model_checking"
TY = {1: fixedint.UInt8, 2: fixedint.UInt16, 4: fixedint.UInt32, 8: fixedint.UInt64}
RNAME = {1: "read_byte", 2: "read_halfword", 4: "read_word", 8: "read_doubleword"}
WNAME = {1: "write_byte", 2: "write_halfword", 4: "write_word", 8: "write_doubleword"}
VALS = {1: (0x5A, 0x00), 2: (0xBEEF, 0x0100), 4: (0x11223344, 0x80000001), 8: (0x0102030405060708, 0xFFFFFFFF00000000)}


def wval(width, vi):
    """Value of write alternative vi. 0/1: a value object of the operation's own type; 2: the first value as a plain Python int;
    3: a small value carried by a NARROWER fixed-width type (the width of a store is the operation's, not the value object's)."""
    if vi < 2:
        return VALS[width][vi]
    return VALS[width][0] if vi == 2 else 0xC3


def wobj(width, vi):
    v = wval(width, vi)
    if vi < 2:
        return TY[width](v)
    return int(v) if vi == 2 else fixedint.UInt8(v)


REJECTED = (".data\nv: .word 0x01020304\nv: .word 5\n.text\naddi x1, x0, 1\n", ".data\nv: .word 0x01020304, 0x05060708\n.text\naddi x1, x0, 1\nbeq x0, x0, nowhere\n")


def rv_addresses(seed):
    A = list(range(BASE - 2, BASE + 6)) + list(range((1 << 32) - 6, (1 << 32) + 2)) + [-1, -2, -(1 << 14), BASE + (1 << 32), 0, 1, BASE + 2 - (1 << 32)]
    return A


def toy_addresses(seed):
    return [-1, 0, 1, 2, 4092, 4093, 4094, 4095, 4096, 4097]


class Setup:
    def __init__(self, arch, seed, lite):
        self.arch = arch
        if arch == "riscv":
            self.cell_bits, self.wrap, self.lo, self.hi = 8, 1 << 32, BASE, 1 << 32
            self.addrs = rv_addresses(seed)
            widths = (1, 2, 4, 8)
        else:
            self.cell_bits, self.wrap, self.lo, self.hi = 16, None, 0, 4096
            self.addrs = toy_addresses(seed)
            widths = (1, 2, 4, 8)  # byte access must raise the unsupported-function error
        ops = []
        for a in self.addrs:
            for w in widths:
                ops.append(("r", w, a, 0))
                for vi in range(1 if lite else 2):
                    ops.append(("w", w, a, vi))
        if not lite:
            # the same stores with the value as a plain int / carried by a narrower fixed-width type, on two addresses
            for a in self.addrs[:2]:
                for w in widths:
                    ops += [("w", w, a, 2), ("w", w, a, 3)]
        ops.append(("reset", 0, 0, 0))  # Memory.reset(): what load_program does
        # environment event: a simulation of the OTHER architecture is created next to this memory and used once
        ops.append(("other", 0, 0, 0))
        if arch == "riscv":
            # the simulation that owns this memory loads a program that is REJECTED (0: while its data segment is being
            # written, 1: in the text segment, after the data was written) and then a program without data: the net effect
            # on the memory is that of a reset (a TOY load builds a new memory object, so there is nothing to observe there)
            ops.append(("reload", 0, 0, 0))
            ops.append(("reload", 0, 0, 1))
        self.ops = ops

    def fresh(self):
        self.sim = RiscvSimulation() if self.arch == "riscv" else ToySimulation()
        return self.sim.state.memory

    def cells(self, a, width):
        """Cell addresses an access of `width` bytes at a touches, in order (None if the width is unsupported)."""
        n = (8 * width) // self.cell_bits
        if n == 0:
            return None
        out = []
        for i in range(n):
            x = a + i
            if self.wrap:
                x %= self.wrap
            out.append(x)
        return out

    def valid(self, x):
        return self.lo <= x < self.hi


def apply(setup, mem, ref, op, checks=None):
    kind, width, a, vi = op
    if kind == "other":
        try:
            o = ToySimulation() if setup.arch == "riscv" else RiscvSimulation()
            o.state.memory.write_halfword(16 if setup.arch == "riscv" else BASE + 16, fixedint.UInt16(0x77))
            ref.setdefault("_others", []).append(o)  # stays alive next to the memory under test
        except Exception as e:  # noqa
            if checks is not None:
                checks.append(("unexpected-error", f"creating a simulation of the other architecture raised {type(e).__name__}: {e}"))
        return
    if kind == "reload":
        try:
            try:
                setup.sim.load_program(REJECTED[vi])
                if checks is not None:
                    checks.append(("unexpected-error", "harness: the program meant to be rejected was accepted"))
            except ParserException:
                pass
            setup.sim.load_program("addi x1, x0, 1\n")
            if setup.sim.state.memory is not mem and checks is not None:
                checks.append(("unexpected-error", "harness: load_program replaced the memory object"))
        except Exception as e:  # noqa
            if checks is not None:
                checks.append(("unexpected-error", f"loading a program without data after a rejected one raised {type(e).__name__}: {e}"))
        others = ref.get("_others")
        ref.clear()
        if others:
            ref["_others"] = others
        return
    if kind == "reset":
        try:
            mem.reset()
        except Exception as e:  # noqa
            if checks is not None:
                checks.append(("unexpected-error", f"reset() raised {type(e).__name__}: {e}"))
        others = ref.get("_others")
        ref.clear()
        if others:
            ref["_others"] = others
        return
    cells = setup.cells(a, width)
    cb = setup.cell_bits
    raised = None
    val = None
    try:
        if kind == "r":
            val = int(getattr(mem, RNAME[width])(a))
        else:
            getattr(mem, WNAME[width])(a, wobj(width, vi))
    except Exception as e:  # noqa
        raised = e
    if cells is None:
        # byte access on the 16-bit-cell TOY memory: unsupported, must raise and change nothing
        if checks is not None and raised is None:
            checks.append(("unsupported-accepted", f"{opname(op)} on a memory with {cb}-bit cells did not raise"))
        return
    invalid = [x for x in cells if not setup.valid(x)]
    if invalid:
        if checks is not None:
            if raised is None:
                checks.append(("range-not-checked", f"{opname(op)} touches invalid address {invalid[0]:#x} but did not raise"))
            elif not isinstance(raised, MemoryAddressError):
                checks.append(("wrong-error-type", f"{opname(op)} raised {type(raised).__name__}, expected MemoryAddressError"))
        if kind == "w" and len(invalid) < len(cells):
            # straddling the boundary: the property allows the valid cells before the first invalid one to have been written;
            # mirror the cell-by-cell order so that later reads are still predicted
            v = wval(width, vi)
            for i, x in enumerate(cells):
                if not setup.valid(x):
                    break
                new = (v >> (cb * i)) & ((1 << cb) - 1)
                alt = ref.setdefault("_straddle", {})
                # the cell may keep what it held (any of its earlier alternatives; None = never written, reads as 0 and is
                # not listed in the table) or take the new value
                alt[x] = set(alt.get(x, {ref[x] if x in ref else None})) | {new}
        return
    if raised is not None:
        if checks is not None:
            checks.append(("unexpected-error", f"{opname(op)} raised {type(raised).__name__}: {raised}"))
        return
    if kind == "w":
        v = wval(width, vi)
        for i, x in enumerate(cells):
            ref[x] = (v >> (cb * i)) & ((1 << cb) - 1)
            ref.get("_straddle", {}).pop(x, None)
    else:
        alt = ref.get("_straddle", {})
        for i, x in enumerate(cells):
            got = (val >> (cb * i)) & ((1 << cb) - 1)
            allowed = {z or 0 for z in alt[x]} if x in alt else {ref.get(x, 0)}
            if got not in allowed:
                if checks is not None:
                    checks.append(("read-value", f"{opname(op)} returned {val:#x}: cell {x:#x} reads {got:#x}, expected {' or '.join(hex(z) for z in sorted(allowed))}"))
                break
            if x in alt:
                # old-or-new is decided by the first observation: from now on the cell holds what was seen
                keep = {z for z in alt[x] if (z or 0) == got}
                if len(keep) == 1:
                    z = keep.pop()
                    alt.pop(x)
                    if z is None:
                        ref.pop(x, None)
                    else:
                        ref[x] = z
                else:
                    alt[x] = keep  # 0 and never-written read alike: the table decides


def opname(op):
    kind, width, a, vi = op
    if kind == "reset":
        return "reset()"
    if kind == "other":
        return "<a simulation of the other architecture is created and used>"
    if kind == "reload":
        return f"<load_program: a program rejected in its {('data', 'text')[vi]} segment, then a program without data>"
    return f"{(RNAME if kind == 'r' else WNAME)[width]}({a:#x}{'' if kind == 'r' else ', ' + hex(wval(width, vi)) + ('', '', ' as a plain int', ' as a UInt8')[vi]})"


def run_history(setup, hist):
    mem = setup.fresh()
    ref = {}
    for i in hist[:-1]:
        apply(setup, mem, ref, setup.ops[i])
        settle(setup, mem, ref, setup.ops[i], None)
    checks = []
    before = visible(setup, mem)
    op = setup.ops[hist[-1]]
    apply(setup, mem, ref, op, checks)
    cells = setup.cells(op[2], op[1]) if op[0] not in ("reset", "other", "reload") else None
    settle(setup, mem, ref, op, checks)
    if op[0] in ("reset", "reload"):
        return mem, ref, checks
    if cells is None or all(not setup.valid(x) for x in cells) or op[0] == "r":
        # an access lying entirely outside the valid range (and any read, and any unsupported access) changes nothing
        if visible(setup, mem) != before:
            checks.append(("state-changed", f"{opname(op)} changed the memory state although it "
                           + ("is a read" if op[0] == "r" else "does not touch this memory" if op[0] == "other" else "lies entirely outside the valid range / is unsupported")))
    return mem, ref, checks


def settle(setup, mem, ref, op, checks):
    """The public cell table after every transition lists exactly the written cells with their values. What it shows for
    a cell that a faulting straddling store left 'old or new' decides that cell from now on (also along the prefix of a
    history, where nothing is reported: every prefix is a history of its own)."""
    vis = visible(setup, mem)
    alt = ref.get("_straddle", {})
    if not isinstance(vis, dict):
        if checks is not None and op[0] != "reset":
            checks.append(("table-error", f"the cell table raised {vis[1]} after {opname(op)}"))
        return
    want = ({x for x in ref if not isinstance(x, str)} - set(alt)) | {x for x in alt if None not in alt[x]}
    gotv = {x: int(r[1]) for x, r in vis.items()}
    # a cell that was never written before a faulting straddling store may be listed afterwards or not
    optional = {x for x in alt if None in alt[x]}
    ok = True
    if set(gotv) - optional != want:
        ok = False
        if checks is not None:
            checks.append(("table-cells", f"after {opname(op)} the cell table lists {sorted(gotv)[:6]}, written cells are {sorted(want)[:6]}"
                           + (f" (optionally {sorted(optional)[:6]})" if optional else "")))
    else:
        for x, v in gotv.items():
            allowed = {z for z in alt[x] if z is not None} if x in alt else {ref.get(x, 0)}
            if v not in allowed:
                ok = False
                if checks is not None:
                    checks.append(("table-value", f"after {opname(op)} cell {x:#x} is shown as {v:#x}, expected {' or '.join(hex(z) for z in sorted(allowed))}"))
                break
    if ok and alt:
        for x in list(alt):
            if x in gotv:
                ref[x] = gotv[x]
            else:
                ref.pop(x, None)
            alt.pop(x)


def visible(setup, mem):
    """The observable contents: the public per-cell table (lists every written cell, also cells holding 0)."""
    try:
        return mem.bytewise_repr() if setup.arch == "riscv" else mem.half_wordwise_repr()
    except Exception as e:  # noqa
        return ("table-raised", type(e).__name__)


def expand(shard):
    (arch, seed, lite), hists = shard
    setup = Setup(arch, seed, lite)
    p = Partial()
    out = []
    for h in hists:
        for oi in range(len(setup.ops)):
            hist = h + (oi,)
            mem, ref, checks = run_history(setup, hist)
            p.transitions += 1
            p.evaluations += 1
            p.traces += 1
            op = setup.ops[oi]
            cells = setup.cells(op[2], op[1]) if op[0] not in ("reset", "other", "reload") else []
            if op[0] == "reset":
                p.counters["reset"] += 1
            elif op[0] == "reload":
                p.counters["reload-after-a-rejected-program"] += 1
            elif op[0] == "other":
                p.counters["neighbour-created"] += 1
            elif cells is not None:
                inv = sum(1 for x in cells if not setup.valid(x))
                if inv and inv < len(cells):
                    p.counters["straddling"] += 1
                    p.nontrivial += 1
                elif inv:
                    p.counters["outside"] += 1
                elif op[0] == "r" and any(x in ref for x in cells):
                    p.counters["read-of-written"] += 1
                    p.nontrivial += 1
                if setup.wrap and op[2] != op[2] % setup.wrap:
                    p.counters["wrapped-address"] += 1
            else:
                p.counters["unsupported"] += 1
            for f, d in checks:
                p.violation(dict(oracle="flat-memory", arch=arch, field=f), dict(kind="mem-history", arch=arch, seed=seed, lite=lite, hist=list(hist)),
                            f"{arch} memory: [{'; '.join(opname(setup.ops[i]) for i in hist)}]: {d}", size=(len(hist), hist))
            key = digest((canon(mem), tuple(sorted((k, v) for k, v in ref.items() if not isinstance(k, str))),
                          tuple(sorted((k, tuple(sorted(v, key=lambda z: -1 if z is None else z))) for k, v in ref.get("_straddle", {}).items())), bool(ref.get("_others")), bool(setup.sim.has_instructions()) if arch == "riscv" else None))
            out.append((hist, key, False))
    p.notes["out"] = out
    return p


def replay(case):
    setup = Setup(case["arch"], case["seed"], case["lite"])
    hist = tuple(case["hist"])
    _m, _r, checks = run_history(setup, hist)
    return [(dict(oracle="flat-memory", arch=case["arch"], field=f), d) for f, d in checks]


def run(ctx):
    ctx.rule = ("BFS over histories of read/write x widths {1,2,4,8 bytes} x addresses around both ends of the valid range (aligned, unaligned, negative, "
                ">= 2^32, straddling) on the real flat memories obtained from RiscvSimulation().state.memory and ToySimulation().state.memory, replayed on "
                "fresh objects, deduplicated on the canonical object state. Operations include reset(), 'the owning RISC-V simulation loads a rejected program (rejected in the data / in the text segment) and then a program without data' (net effect: a reset) and the environment event 'a simulation of the other architecture is created next to this memory and used' (part of the state key, so every history is explored with and without a neighbour). Oracle: cell dictionary with address reduction mod 2^32 (none for TOY): reads "
                "compose the last written cells little-endian; an access touching an invalid address raises MemoryAddressError; reads and accesses entirely "
                "outside the range leave the canonical state unchanged; byte accesses on the 16-bit-cell TOY memory raise; after every transition the public cell table lists exactly the written cells with their values. Non-trivial = read of a written "
                "cell or straddling access.")
    ctx.assumptions += ["for a store straddling the range boundary 'raises' is demanded and every valid cell it touches holds either its old or the new value afterwards; the first observation (a read or the cell table, which is looked at after every transition) decides which, and the cell must keep that value until it is written again"]
    for arch, lite, depth in (("riscv", False, 2 if ctx.quick else 3), ("riscv", True, 3 if ctx.quick else 4), ("toy", False, 3 if ctx.quick else 4), ("toy", True, 4 if ctx.quick else 6)):
        t0 = time.time()
        setup = Setup(arch, ctx.seed, lite)
        mem0 = setup.fresh()
        key0 = digest((canon(mem0), (), (), False, False if arch == "riscv" else None))
        res = bfs(expand, (arch, ctx.seed, lite), [key0], [()], depth, 3000000, label=f"[C18] {arch}", verbose=not ctx.quick)
        if res.stopped in ("state-cap", "time-cap"):
            ctx.exhaustive = False
        res.part.sample(dict(kind="mem-history", arch=arch, ops=[opname(setup.ops[i]) for i in (1, len(setup.ops) // 2, len(setup.ops) - 1)]))
        ctx.space(f"{arch}-memory-{'1val' if lite else '2val'}-depth{depth}", res.part, t0, operations=len(setup.ops), addresses=len(setup.addrs), depth=res.depth,
                  closed=res.closed, stopped_early=res.stopped)
    ctx.require("straddling", "outside", "read-of-written", "wrapped-address", "unsupported", "reset", "neighbour-created", "reload-after-a-rejected-program")
