"""Shared alphabets (DESIGN §2): boundary values, hazard alphabets, initial states."""
from __future__ import annotations

from vf.ref.rv32 import MINADDR as BASE

B32 = [0, 1, 2, 3, 4, 5, 31, 32, 33, 63, 0x7F, 0x80, 0xFF, 0x100, 0x7FF, 0x800, 0xFFF, 0x1000, 0x7FFF, 0x8000,
       0xFFFF, 0x10000, 0x7FFFFFFF, 0x80000000, 0x80000001, 0xFFFFFFFE, 0xFFFFFFFF, 0xFFFFF800, 0xFFFFF7FF,
       0xAAAAAAAA, 0x55555555, 0x12345678, 0xDEADBEEF, 0xFFFF0000, 0x0000FFFF, 0xC0000000, 0x40000000]
B32_MORE = sorted(set(B32) | {(1 << k) for k in range(32)} | {((1 << k) - 1) for k in range(1, 33)}
                  | {((1 << k) + 1) & 0xFFFFFFFF for k in range(1, 32)})
B32_SMALL = [0, 1, 0x7F, 0x80, 0xFF, 0x7FFF, 0x8000, 0xFFFF, 0x7FFFFFFF, 0x80000000, 0xFFFFFFFF, 0x12345678, 0xDEADBEEF]

# concrete registers standing for the symbolic r1, r2, r3 (never x0, a0=x10, a7=x17)
REG_TRIPLES = [(1, 2, 3), (5, 6, 7), (28, 9, 31), (11, 12, 13), (15, 16, 18), (30, 4, 8), (19, 29, 20)]


def regs_for_seed(seed):
    return REG_TRIPLES[seed % len(REG_TRIPLES)]


def hazard_alphabet(seed, big=False):
    """H18 (and the H28 extras) over the seed's concrete registers. Each symbol is a tuple of instructions
    (most are single instructions; two symbols of H28 are pairs)."""
    r1, r2, r3 = regs_for_seed(seed)
    a0, a7 = 10, 17
    H18 = [
        ("addi", r1, 0, 0, 5),
        ("addi", r1, r1, 0, 1),
        ("add", r2, r1, r1, 0),
        ("add", r1, r2, 0, 0),
        ("add", a0, r1, r2, 0),
        ("addi", a7, 0, 0, 93),
        ("addi", a7, 0, 0, 1),
        ("lw", r1, r3, 0, 0),
        ("sw", 0, r3, r1, 0),
        ("lw", r2, r3, 0, 4),
        ("beq", 0, r1, r2, 8),
        ("bne", 0, r1, 0, 8),
        ("beq", 0, 0, 0, -4),
        ("jal", r1, 0, 0, 8),
        ("jalr", r2, r1, 0, 0),
        ("jalr", r1, r1, 0, 4),
        ("ecall", 0, 0, 0, 0),
        ("mul", 0, r1, r2, 0),
    ]
    if not big:
        return H18
    EXTRA = [
        ("sb", 0, r3, r2, 1),
        ("lbu", r1, r3, 0, 1),
        ("blt", 0, r2, r1, -8),
        ("lui", r1, 0, 0, 0xFFFFF),
        ("auipc", r2, 0, 0, 1),
        ("lw", r3, r3, 0, 0),
        ("addi", a7, 0, 0, 4),
        ("add", a0, r3, 0, 0),
        ("addi", a7, 0, 0, 0),
        ("addi", r1, 0, 0, -4),
        ("jalr", 0, r1, 0, 12),
        ("jalr", 0, r2, 0, -3),
    ]
    return H18 + EXTRA


def init_states(seed, n):
    """Initial register/memory states for program exploration (seed rotates which come first)."""
    r1, r2, r3 = regs_for_seed(seed)
    states = [
        dict(regs={r1: 0, r2: 8, r3: BASE, 17: 1, 10: 7}, words={BASE: 12, BASE + 4: 4}),
        dict(regs={r1: 8, r2: 8, r3: BASE, 17: 1, 10: 0xFFFFFFFF}, words={BASE: 0, BASE + 4: 8}),
        dict(regs={r1: 0xFFFFFFFC, r2: 4, r3: BASE + 4, 17: 36, 10: 0x80000000}, words={BASE: 0x41, BASE + 4: BASE, BASE + 8: 16}),
        dict(regs={r1: 4, r2: 0x80000000, r3: BASE, 17: 11, 10: 0x41}, words={BASE: 4, BASE + 4: 0xFFFFFFFF}),
    ]
    k = seed % len(states)
    states = states[k:] + states[:k]
    return states[:n]


def count_programs(nsym, maxlen):
    return sum(nsym**k for k in range(1, maxlen + 1))
