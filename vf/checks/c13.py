"""C13 — life-cycle: done is stable, run equals stepping, reload equals a fresh load (BFS over call histories)."""
from __future__ import annotations

import time

from architecture_simulator.isa.parser_exceptions import ParserException
from architecture_simulator.simulation.riscv_simulation import RiscvSimulation
from architecture_simulator.simulation.runtime_errors import InstructionExecutionException
from architecture_simulator.simulation.toy_simulation import ToySimulation

from vf.adapt import inspect as insp
from vf.adapt import rv
from vf.engine.core import CaseTimeout, Partial, digest, pmap, watchdog

ID = "C13"
LEVEL = "model_checking"
HORIZON = 40

RV_PROGRAMS = [
    ("empty", ""),
    ("comment-only", "# nothing here\n\n   # still nothing\n"),
    ("one-instruction", "addi x1, x0, 5\n"),
    ("straight-line", ".data\nv: .word 7, 8\n.text\nla x3, v\nlw x1, 0(x3)\nlw x2, v[1]\nadd x4, x1, x2\nsw x4, 8(x3)\n"),
    ("exit-then-more", "addi a7, x0, 93\naddi a0, x0, 3\necall\naddi x5, x0, 1\naddi x6, x0, 2\n"),
    ("exit-zero-then-more", "addi x5, x0, 1\naddi a7, x0, 10\necall\naddi x5, x5, 1\naddi x6, x0, 2\n"),
    ("exit-93-status-zero-then-more", "addi a7, x0, 93\necall\naddi x5, x0, 1\nsw x5, 0(x0)\n"),
    ("print-and-fall-off", "addi a7, x0, 1\naddi a0, x0, -7\necall\n"),
    ("jump-outside", "addi x1, x0, 1\njal x2, 64\naddi x3, x0, 3\n"),
    ("fall-off-in-branch-shadow", "addi x1, x0, 1\nbeq x0, x0, 8\naddi x2, x0, 2\n"),
    ("branch-to-negative-address", "addi x1, x0, 1\nbeq x0, x0, -12\naddi x3, x0, 3\n"),
    ("jump-beyond-instruction-memory", "lui x5, 4\njalr x2, x5, 0\naddi x3, x0, 3\n"),
    ("jalr-to-wrapped-address", "addi x1, x0, -4\njalr x0, x1, 0\naddi x3, x0, 3\n"),
    ("data-only", ".data\nd: .word 0xCAFEBABE, 7\nt: .string \"xyz\"\n"),
    ("runtime-fault", "addi x1, x0, 1\nlw x2, 0(x0)\naddi x3, x0, 3\n"),
    ("fault-at-the-first-instruction", "lw x2, 0(x0)\naddi x3, x0, 3\n"),
    ("infinite-loop", "addi x1, x1, 1\nbeq x0, x0, -4\n"),
    ("label-on-line-2", "addi x1, x0, 1\nl: addi x2, x0, 2\nbne x2, x2, l\n"),
    ("parse-fail-unknown-variable-behind-an-inline-label", "l: addi x1, x0, 1\nlw x2, novar\nq: addi x3, x0, 3\n"),
    ("parse-fail-line-1", "addi x1, x0\naddi x2, x0, 2\n"),
    ("parse-fail-after-data", ".data\nw: .word 0x11223344\ns: .string \"ab\"\n.text\naddi x1, x0, 1\nbeq x0, x0, nowhere\n"),
]
TOY_PROGRAMS = [
    ("empty", ""),
    ("comment-only", "# nothing\n"),
    ("one-instruction", "INC\n"),
    ("straight-line", ".data\nv: .word 7\n.text\nLDA v\nINC\nSTO v\n"),
    ("branch-out", "ZRO\nBRZ 0x100\nINC\n"),
    ("self-modifying", "LDA 0x003\nINC\nSTO 0x003\nLDA 0xFFF\n"),
    ("infinite-loop", "ZRO\nBRZ 0\n"),
    ("parse-fail-line-1", "LDA\nINC\n"),
    ("parse-fail-after-data", ".data\nv: .word 5\n.text\nINC\nBRZ nowhere\n"),
]
NONTERMINATING = {"infinite-loop"}

CONFIGS = {
    "single": lambda: RiscvSimulation(mode=rv.SINGLE),
    "five": lambda: RiscvSimulation(mode=rv.FIVE),
    "five-nohazard": lambda: RiscvSimulation(mode=rv.FIVE, detect_data_hazards=False),
    "single-caches": lambda: RiscvSimulation(mode=rv.SINGLE, data_cache=rv.cache_opts(1, 0, 1, "wb", "lru", 2), instruction_cache=rv.cache_opts(0, 1, 2, "wb", "plru", 1)),
    "five-caches": lambda: RiscvSimulation(mode=rv.FIVE, data_cache=rv.cache_opts(0, 1, 2, "wt", "lru", 3), instruction_cache=rv.cache_opts(1, 0, 1, "wb", "lru", 2)),
    "toy": lambda: ToySimulation(),
}


def programs(cfg):
    return TOY_PROGRAMS if base_cfg(cfg) == "toy" else RV_PROGRAMS


def apply(sim, cfg, op):
    """op: ('load', i) | ('step',) | ('run',). Returns (kind, value): ok/parse-error/fault/timeout."""
    try:
        try:
            if op[0] == "load":
                with watchdog(10):
                    sim.load_program(programs(cfg)[op[1]][1])
                return "ok", None
            if op[0] == "step":
                return "ok", sim.step()
            with watchdog(10):
                sim.run()
            return "ok", None
        finally:
            if cfg.endswith("+inspected"):
                # the GUI refreshes every table after every operation: inspection between loads / steps must not matter
                try:
                    insp.full_snapshot(sim)
                except Exception:  # noqa  (reported where the snapshot is taken for comparison)
                    pass
    except ParserException as e:
        return "parse-error", e
    except InstructionExecutionException as e:
        return "fault", e
    except CaseTimeout:
        return "timeout", None
    except Exception as e:  # noqa - any other exception type escaping load/step/run is a violation (reported by the caller)
        return "error", e


def opname(cfg, op):
    return f"load({programs(cfg)[op[1]][0]})" if op[0] == "load" else op[0] + "()"


def base_cfg(cfg):
    return cfg[:-len("+inspected")] if cfg.endswith("+inspected") else cfg


def replay_history(cfg, hist):
    sim = CONFIGS[base_cfg(cfg)]()
    for op in hist:
        apply(sim, cfg, op)
    return sim


def explore_config(shard):
    cfg, max_loads = shard
    P = programs(cfg)
    p = Partial()
    sim0 = CONFIGS[base_cfg(cfg)]()
    seen = {digest(insp.full_snapshot(sim0))}
    # per-history bookkeeping: (history, loaded program index or None, steps taken, number of loads, terminal?)
    frontier = [((), None, 0, 0)]
    fresh_load = {}

    def fresh_snapshot(i):
        if i not in fresh_load:
            s = CONFIGS[base_cfg(cfg)]()
            k, _v = apply(s, base_cfg(cfg), ("load", i))
            fresh_load[i] = (k, digest(insp.observables(s)))
        return fresh_load[i]

    def viol(field, hist, msg):
        p.violation(dict(oracle="lifecycle", field=field), dict(kind="lifecycle", cfg=cfg, hist=[list(o) for o in hist]),
                    f"{cfg}: [{'; '.join(opname(cfg, o) for o in hist)}]: {msg}", size=(len(hist), tuple(map(str, hist))))

    timeouts = 0
    while frontier:
        nxt = []
        for hist, prog, steps, nloads in frontier:
            if timeouts >= 4:
                break
            base = replay_history(cfg, hist)
            started = base.has_started
            try:
                was_done = base.is_done()
            except Exception:  # noqa (already reported on the transition that led here)
                continue
            before = digest(insp.observables(base)) if was_done else None
            ops = []
            if not started and nloads < max_loads:
                ops += [("load", i) for i in range(len(P))]
            if steps < HORIZON:
                ops.append(("step",))
            if prog is None or P[prog][0] not in NONTERMINATING:
                ops.append(("run",))
            for op in ops:
                sim = replay_history(cfg, hist)
                kind, val = apply(sim, cfg, op)
                h2 = hist + (op,)
                p.transitions += 1
                p.evaluations += 1
                p.traces += 1
                if kind == "timeout":
                    viol("termination", h2, f"{opname(cfg, op)} did not return within 10 s")
                    timeouts += 1
                    if timeouts >= 4:
                        # a tree on which calls stop returning: the violations are recorded, the rest of this configuration is not explored
                        frontier, nxt = [], []
                        break
                    continue
                if kind == "error":
                    viol("unexpected-exception", h2, f"{opname(cfg, op)} raised {type(val).__name__}: {str(val)[:100]}")
                    continue
                try:
                    obs = digest(insp.observables(sim))
                    snap = insp.full_snapshot(sim)
                    sim.is_done()
                except Exception as e:  # noqa
                    viol("unexpected-exception", h2, f"inspecting the simulation after {opname(cfg, op)} raised {type(e).__name__}: {str(e)[:100]}")
                    continue
                dg = digest(snap)
                terminal = False
                if op[0] == "load":
                    fk, fdg = fresh_snapshot(op[1])
                    if kind != fk:
                        viol("reload-outcome", h2, f"load outcome {kind}, on a fresh simulation {fk}")
                    elif kind == "ok":
                        if nloads:
                            p.nontrivial += 1
                            p.counters["reload"] += 1
                        if obs != fdg:
                            viol("reload-differs-from-fresh", h2, "state after this load differs from the same load on a fresh simulation")
                        if P[op[1]][0] in ("empty", "comment-only") and not sim.is_done():
                            viol("empty-not-done", h2, "a program without instructions is not done immediately")
                    else:
                        p.counters["failed-load"] += 1
                    nprog, nsteps, nl = (op[1] if kind == "ok" else None), 0, nloads + 1
                else:
                    nprog, nl = prog, nloads
                    nsteps = steps + 1 if op[0] == "step" else steps
                    if kind == "fault":
                        p.counters["runtime-fault"] += 1
                        # behaviour after a run-time fault is not part of the claim — except that a simulation which still says
                        # "not started" must take a load like a fresh one: only loads are offered behind such a fault
                        terminal = bool(getattr(sim, "has_started", True))
                        if not terminal:
                            p.counters["fault-but-not-started"] += 1
                            nsteps = HORIZON
                            nprog = next(i for i, (n_, _t) in enumerate(P) if n_ in NONTERMINATING)
                    else:
                        if was_done:
                            p.counters["call-after-done"] += 1
                            p.nontrivial += 1
                            if obs != before:
                                viol("done-not-stable", h2, f"{op[0]}() on a finished simulation changed an observable result")
                            if not sim.is_done():
                                viol("done-not-stable", h2, f"simulation no longer done after {op[0]}()")
                        if op[0] == "step":
                            if val != (not sim.is_done()):
                                viol("step-return", h2, f"step() returned {val!r} but is_done() is {sim.is_done()}")
                        else:
                            # run() == step() until done
                            ref = replay_history(cfg, hist)
                            n = 0
                            rk = "ok"
                            try:
                                while not ref.is_done() and n < 400 and rk == "ok":
                                    rk, _v = apply(ref, cfg, ("step",))
                                    n += 1
                            except Exception:  # noqa
                                rk = "error"
                            if not sim.is_done():
                                viol("run-not-done", h2, "run() returned but the simulation is not done")
                            elif rk == "ok" and digest(insp.observables(ref)) != obs:
                                viol("run-differs-from-stepping", h2, f"run() ends in a different state than {n} step() calls")
                            p.counters["run"] += 1
                if dg not in seen:
                    seen.add(dg)
                    if not terminal:
                        nxt.append((h2, nprog, nsteps, nl))
        frontier = nxt
        if p.viol and len(seen) > 3000:
            break
    p.states = len(seen)
    p.sample(dict(kind="lifecycle", cfg=cfg, hist=[["load", len(P) - 1], ["load", 3], ["step"], ["run"], ["step"]]))
    return p


def fresh_probe(cfg, hist):
    """Runs in a pristine interpreter (vf.engine.fresh): the history on a new simulation; returns the outcome of every call and
    what can be observed afterwards."""
    sim = CONFIGS[base_cfg(cfg)]()
    outcomes = []
    for op in hist:
        kind, _v = apply(sim, cfg, tuple(op))
        outcomes.append(kind)
    obs, started = insp.observables(sim)
    return {"last_outcome": outcomes[-1] if outcomes else None, "observations": [[n, repr(c)[:2000]] for n, c in obs], "has_started": started}


def fresh_items():
    """'The same load on a fresh simulation' must also mean a fresh PROCESS: a rejected load may leave something behind at class
    or module level, which the reference simulation of an in-process comparison would see as well. Pairs in separate
    interpreters: [load Y; run] against [load F (rejected); load Y; run] for every rejected F and every Y."""
    out = []
    for cfg in ("single", "toy"):
        P = programs(cfg)
        fails = [i for i, (n_, _t) in enumerate(P) if n_.startswith("parse-fail")]
        for f in fails:
            for y, (yname, _t) in enumerate(P):
                if yname in NONTERMINATING:
                    continue
                tail = [["load", y], ["run"]]
                out.append(("reload-in-a-fresh-process", f"{cfg}: load({P[f][0]}); load({yname}); run() vs. load({yname}); run() in a pristine interpreter",
                            ["call", "vf.checks.c13", "fresh_probe", [cfg, tail]], ["call", "vf.checks.c13", "fresh_probe", [cfg, [["load", f]] + tail]]))
    return out


def replay(case):
    if case.get("kind") == "fresh-pair":
        from vf.checks import freshcmp
        return freshcmp.replay(case)
    cfg = case["cfg"]
    hist = [tuple(o) for o in case["hist"]]
    # re-run the exploration of this configuration restricted to the failing history's prefixes
    part = explore_config((cfg, sum(1 for o in hist if o[0] == "load") or 1))
    want = [list(o) for o in hist]
    out = []
    for _k, (n, lst) in part.viol.items():
        for size, sig, c, msg in lst:
            out.append((sig, msg))
    return out


def run(ctx):
    ctx.rule = ("BFS over histories of {load(P_i), step(), run()} on real single-cycle, five-stage (with/without hazard detection, with/without caches) and "
                "TOY simulations; load is offered only while has_started is false, load sequences up to depth 3 (4); program corpus: empty, comment-only, "
                "one instruction, straight line with data, exit ecall followed by instructions, print then fall off, jump outside, fall off inside a branch "
                "shadow, jumps that leave the instruction memory's address range (negative, >= 2^14, wrapped), data-only program, run-time fault, infinite loop (horizon 40, "
                "run excluded), parse failure at line 1, parse failure after the data segment was written; every configuration is explored twice: plainly, and with "
                "every inspection function called after every operation (the GUI's behaviour). "
                "States deduplicated on the complete canonical snapshot + every inspection result; all comparisons use observable results only (every inspection function "
                "and has_started), so internal caches cannot raise an alarm; the search runs to closure. Invariants per transition: "
                "done => further step/run change nothing; step() returns not is_done(); run() == step() until done; empty program done immediately; a load "
                "after earlier successful/failed loads equals the same load on a fresh simulation. Non-trivial = reload after an earlier load, call after done.")
    ctx.assumptions += ["behaviour after a run-time fault is not explored further (not part of the claim)", "wall-clock fields of the metrics are masked"]
    t0 = time.time()
    max_loads = 3 if ctx.quick else 4
    cfgs = list(CONFIGS) + [c + "+inspected" for c in CONFIGS]
    part = pmap(explore_config, [(cfg, max_loads) for cfg in cfgs])
    ctx.space("lifecycle-bfs", part, t0, configurations=cfgs, max_loads=max_loads, closed=True)
    ctx.require("reload", "failed-load", "runtime-fault", "call-after-done", "run")
    from vf.checks import freshcmp
    t0 = time.time()
    items = fresh_items()
    part = pmap(freshcmp.pair_shard, [items[i::32] for i in range(32) if items[i::32]])
    ctx.space("reload-after-a-rejected-load-in-fresh-interpreters", part, t0, pairs=len(items),
              note="each history in its own interpreter: what a rejected load leaves at class / module level cannot be shared with the reference")
    ctx.require("fresh-interpreter-differential")
