"""C05 — assembler data segment: layout, initial values, name[i] addressing, li constants (ENUM)."""
from __future__ import annotations

import itertools
import time

from vf.adapt import asm
from vf.engine.core import CaseTimeout, Partial, pmap
from vf.ref import rv32

ID = "C05"
LEVEL = "exploration"
DATA = rv32.MINADDR
M = rv32.M
W = {"byte": 1, "half": 2, "word": 4}
SHAPES = [
    ("byte", [5]), ("byte", [1, -1, 255]), ("byte", [256, -128, 7, 8, 9]),
    ("half", [0x1234]), ("half", [-1, 65536]), ("half", [1, 65535, -32768]),
    ("word", [0x12345678]), ("word", [-1, 2**32 + 5]), ("word", [2**32 - 1, -2**31, 2**32]),
    ("string", ""), ("string", "a"), ("string", "abc"), ("string", "abcd"), ("string", "a  b"), ("string", "  x "),
    ("zero", 0), ("zero", 1), ("zero", 2),
    # large reservations: the variables behind them sit around the 0x...7FC / 0x...800 boundary, where the lui/addi
    # split of an address needs its carry compensation (la, load and store by name use separate copies of that code)
    ("zero", 510), ("zero", 1023),
]


def layout(decls, base=DATA):
    """Reference layout: (byte image incl. explicit zeros, variables {name: (addr, stride, count)}, end address, don't-care words)."""
    addr = base
    mem = {}
    vars_ = {}
    dontcare = set()
    for i, (k, v) in enumerate(decls):
        addr = (addr + 3) & ~3
        name = f"v{i}"
        if k in W:
            vars_[name] = (addr, W[k], len(v), k)
            for x in v:
                for j in range(W[k]):
                    mem[addr + j] = ((x & ((1 << (8 * W[k])) - 1)) >> (8 * j)) & 0xFF
                addr += W[k]
        elif k == "string":
            vars_[name] = (addr, 1, len(v) + 1, k)
            for ch in v:
                mem[addr] = ord(ch)
                addr += 1
            mem[addr] = 0
            addr += 1
        else:
            vars_[name] = (addr, 4, v, k)
            for j in range(4 * v):
                dontcare.add((addr + j) & ~3)
            addr += 4 * v
    return mem, vars_, addr, dontcare


def lit(x, radix):
    if radix == 0:
        return str(x)
    if radix == 1:
        return hex(x) if x >= 0 else "-" + hex(-x)
    return bin(x) if x >= 0 else "-" + bin(-x)


def render_data(decls, radix):
    out = []
    for i, (k, v) in enumerate(decls):
        if k in W:
            out.append(f"    v{i}: .{k} " + ", ".join(lit(x, (radix + j) % 3) for j, x in enumerate(v)))
        elif k == "string":
            out.append(f'    v{i}: .string "{v}"')
        else:
            out.append(f"    v{i}: .zero {v}")
    return "\n".join(out)


def frame(data, body, order):
    return (".data\n" + data + "\n.text\n" + body + "\n") if order == 0 else (body + "\n.data\n" + data + "\n")


DIRTY = ".data\nd: .word " + ", ".join(["0xFFFFFFFF"] * 40) + "\ne: .string \"0123456789\"\n.text\naddi x1, x0, 1\n"


DIRTY_REJECTED = ".data\nd: .word " + ", ".join(["0xEEEEEEEE"] * 40) + "\ne: .string \"9876543210\"\n.text\naddi x1, x0, 1\nlw x2, undeclared\n"


def check_decls(decls, radix, order, with_stores, p):
    """Assemble + run accessor programs for this data segment. Returns list of (field, detail, text)."""
    # the first data address is a property of the data memory the state was built with: rotate the default memory with
    # memories whose valid range starts lower / at 0 / higher (only without a data cache, which has its own rotation below)
    ck = (sum(len(str(v)) for _k, v in decls) + radix + 2 * order) % 4
    mv = (3 * len(decls) + sum(len(str(v)) for _k, v in decls) // 4 + radix + order) % 7 if ck == 0 else 0
    base = {4: 0x1000, 5: 0, 6: 0x8000}.get(mv, DATA)
    mem, vars_, end, dontcare = layout(decls, base)
    # two of three cases are loaded into a simulation with a history: (1) it has loaded (not run) another program with a
    # bigger, non-zero data segment; (2) it has loaded this very text, then a program with such a data segment that is
    # REJECTED after its data was written, and now loads this text again
    hist = (len(decls) + radix + order) % 4
    before_of = {0: lambda t: None, 1: lambda t: DIRTY, 2: lambda t: [t, DIRTY_REJECTED], 3: lambda t: [("touch", DIRTY, tuple(range(DATA, DATA + 176, 4)))]}[hist]
    if hist:
        p.counters[("", "loaded-over-an-earlier-program", "loaded-again-after-a-rejected-program", "loaded-after-an-earlier-program-was-looked-at")[hist]] += 1
    # the layout does not depend on the data-cache configuration: rotate none / write-back with multi-word blocks / write-through
    from vf.adapt import rv as _rv
    simkw = {}
    if base != DATA:
        from architecture_simulator.uarch.memory.memory import AddressingType, Memory
        from architecture_simulator.uarch.riscv.riscv_architectural_state import RiscvArchitecturalState
        mk_state = lambda: RiscvArchitecturalState(memory=Memory(AddressingType.BYTE, 32, True, range(base, 1 << 32)))  # noqa
        p.counters["data-memory-with-another-first-address"] += 1
    else:
        mk_state = None
    if ck == 1:
        simkw["data_cache"] = _rv.cache_opts(0, 1, 2, "wb", "lru", 1)
    elif ck == 2:
        simkw["data_cache"] = _rv.cache_opts(1, 2, 1, "wb", "plru", 0)
    elif ck == 3:
        simkw["data_cache"] = _rv.cache_opts(0, 1, 1, "wt", "lru", 2)
    if simkw:
        p.counters["assembled-with-a-data-cache"] += 1
    data = render_data(decls, radix)
    bad = []
    # accessors: la / width-matching load for every variable and every index 0..len (one past the end included)
    acc = []
    for name, (a, sz, cnt, k) in vars_.items():
        idxs = list(range(cnt + 1))
        if cnt > 8:
            # big arrays: the ends plus every element whose address is next to a 2 KiB boundary
            idxs = sorted({0, 1, cnt - 1, cnt} | {i for i in range(cnt + 1) if ((a + sz * i) & 0x7FF) in (0x7FC, 0x000, 0x004)})
        for idx in [None] + idxs:
            ea = a + sz * (idx or 0)
            ref = name + ("" if idx is None else f"[{idx}]")
            acc.append(("la", ref, ea, None))
            mn = {1: "lbu", 2: "lhu", 4: "lw"}[sz]
            acc.append((mn, ref, ea, sz))
            if sz < 4:
                acc.append(({1: "lb", 2: "lh"}[sz], ref, ea, -sz))
    chunks = [acc[i:i + 29] for i in range(0, len(acc), 29)]
    first = True
    for chunk in chunks:
        lines = []
        exp = {}
        for r, (mn, ref, ea, sz) in enumerate(chunk, start=1):
            reg = r if r < 5 else r + 1  # skip x5 (t0 may be overwritten by a load-by-name)
            lines.append(f"{mn} x{reg}, {ref}")
            if mn == "la":
                exp[reg] = ea
            else:
                n = abs(sz)
                v = sum(mem.get(ea + j, 0) << (8 * j) for j in range(n))
                exp[reg] = (rv32.sx(v, 8 * n) & M) if sz < 0 else v
        text = frame(data, "\n".join(lines), order)
        p.evaluations += 1
        try:
            a = asm.assemble(text, before=before_of(text), **(dict(simkw, state=mk_state()) if mk_state else simkw))
        except CaseTimeout:
            return [("termination", "load_program did not terminate", text)]
        except Exception as e:  # noqa
            return [("load-error", f"load_program raised {type(e).__name__}: {e!r}", text)]
        sim = a.sim
        if first:
            first = False
            # (i) byte image over the whole segment plus slack
            for x in range(base, ((end + 3) & ~3) + 8):
                got = int(sim.state.memory.read_byte(x))
                if got != mem.get(x, 0):
                    bad.append(("byte-image", f"byte at {x:#x} is {got:#x}, expected {mem.get(x, 0):#x}", text))
                    break
            # (iv) the memory table lists every word that contains a declared byte (terminators included)
            table = {ad for (ad, _h), _r in sim.get_data_memory_entries()}
            need = {x & ~3 for x in mem} - dontcare
            miss = sorted(need - table)
            if miss:
                bad.append(("table-row-missing", f"memory table lacks the word at {miss[0]:#x} although a declared byte lives there", text))
        try:
            n = 0
            while not sim.is_done() and n < 200:
                sim.step()
                n += 1
        except Exception as e:  # noqa
            bad.append(("run-error", f"running the accessor program raised {type(e).__name__}: {getattr(e, 'instruction_repr', e)}", text))
            continue
        regs = [int(x) for x in sim.state.register_file.registers]
        for reg, v in exp.items():
            if regs[reg] != v:
                i = [r if r < 5 else r + 1 for r in range(1, len(chunk) + 1)].index(reg)
                mn, ref, ea, sz = chunk[i]
                bad.append((("address" if mn == "la" else "loaded-value"), f"'{mn} x{reg}, {ref}' leaves {regs[reg]:#x}, expected {v:#x}", text))
                break
    if with_stores:
        # store-by-name to every element (index < len), then compare the whole image
        sts = []
        for name, (a, sz, cnt, k) in vars_.items():
            idxs = list(range(cnt))
            if cnt > 8:
                idxs = sorted({0, 1, cnt - 1} | {i for i in range(cnt) if ((a + sz * i) & 0x7FF) in (0x7FC, 0x000, 0x004)})
            for idx in idxs:
                sts.append(({1: "sb", 2: "sh", 4: "sw"}[sz], name + f"[{idx}]", a + sz * idx, sz))
            if cnt:
                # the un-indexed form right behind indexed ones: it must not inherit anything from them
                sts.append(({1: "sb", 2: "sh", 4: "sw"}[sz], name, a, sz))
        for ci in range(0, len(sts), 12):
            chunk = sts[ci:ci + 12]
            lines = ["li x1, 0xA1B2C3D4"]
            m2 = dict(mem)
            last = None
            for si_, (mn, ref, ea, sz) in enumerate(chunk):
                # operand notations mixed: x-number / ABI name for the value and the scratch register (x1 = ra, x2 = sp)
                lines.append(f"{mn} {('x1', 'ra')[(si_ // 2) % 2]}, {ref}, {('x2', 'sp')[si_ % 2]}")
                for j in range(sz):
                    m2[ea + j] = (0xA1B2C3D4 >> (8 * j)) & 0xFF
                last = ea
            text = frame(data, "\n".join(lines), order)
            p.evaluations += 1
            try:
                a = asm.assemble(text, before=before_of(text), **(dict(simkw, state=mk_state()) if mk_state else simkw))
                sim = a.sim
                n = 0
                while not sim.is_done() and n < 200:
                    sim.step()
                    n += 1
            except Exception as e:  # noqa
                bad.append(("store-error", f"store-by-name program raised {type(e).__name__}: {getattr(e, 'instruction_repr', e)!r}", text))
                continue
            for x in range(base, ((end + 3) & ~3) + 8):
                got = int(sim.state.memory.read_byte(x))
                if got != m2.get(x, 0):
                    bad.append(("stored-byte", f"after the stores the byte at {x:#x} is {got:#x}, expected {m2.get(x, 0):#x}", text))
                    break
            if last is not None and int(sim.state.register_file.registers[2]) != last:
                bad.append(("store-address-register", f"x2 = {int(sim.state.register_file.registers[2]):#x} after the last store, expected {last:#x}", text))
    ctxt = ([f"data memory with first address {base:#x}"] if base != DATA else []) + ([f"data cache {simkw['data_cache']}"] if simkw else []) \
        + [["", "loaded over an earlier program", "loaded, then a program rejected after its data was written, then loaded again", "loaded after an earlier program's data was read through the memory system (uncounted)"][hist]] * bool(hist)
    if ctxt:
        bad = [(f, d + " [" + "; ".join(ctxt) + "]", t) for f, d, t in bad]
    return bad


def decl_features(decls):
    return dict(has_zero_decl=any(k == "zero" and v > 0 for k, v in decls))


QUICK3 = [1, 2, 4, 7, 9, 11, 13, 18]  # shape subset for length 3 in the quick tier (every kind, the odd-sized ones)


def decl_shard(shard):
    L, first, orders, with_stores, seed = shard
    p = Partial()
    pool = range(len(SHAPES))
    if isinstance(first, tuple):
        pool = QUICK3
        first = first[0]
    for tail in itertools.product(pool, repeat=L - 1):
        idx = (first,) + tail
        decls = [SHAPES[i] for i in idx]
        for order in orders:
            radix = (sum(idx) + order + seed) % 3
            bad = check_decls(decls, radix, order, with_stores, p)
            if L > 1 or decls[0][0] != "zero":
                p.nontrivial += 1
            if any(k in ("byte", "half", "string") for k, _v in decls[:-1]):
                p.counters["alignment-after-odd-sized-variable"] += 1
            if any(k == "string" for k, _v in decls):
                p.counters["string"] += 1
            if any(k == "zero" and v for k, v in decls):
                p.counters["zero-reservation"] += 1
            if any(k == "zero" and v > 500 for k, v in decls[:-1]):
                p.counters["variable-behind-a-2KiB-boundary"] += 1
            for f, d, text in bad:
                kinds = sorted({k for k, _v in decls})
                p.violation(dict(oracle="data-layout", field=f, **decl_features(decls)), dict(kind="decls", idx=list(idx), radix=radix, order=order, stores=with_stores),
                            f"{text!r}: {d}", size=(L, idx, order))
    if first == 0:
        p.sample(dict(kind="decls", text=frame(render_data([SHAPES[2], SHAPES[11], SHAPES[7]], 1), "la x1, v1[2]\nlbu x2, v1[3]", 0)))
    return p


# ---- li constants ----------------------------------------------------------------------------------------------
HIGH = [0, 1, 0x7FFFE, 0x7FFFF, 0x80000, 0x80001, 0xFFFFE, 0xFFFFF]


def junk_registers(sim):
    """li must leave c in rd whatever rd held before: every register holds a non-zero pattern when the program starts."""
    regs = sim.state.register_file.registers
    for r in range(1, 32):
        regs[r] = type(regs[r])((0xA5A5A5A5 ^ (r * 0x01010101)) & 0xFFFFFFFF)


def li_shard(shard):
    hi, lo_start, lo_end, forms, seed = shard
    p = Partial()
    consts = []
    for lo in range(lo_start, lo_end):
        c = (hi << 12) | lo
        for form in forms:
            if form == "plain":
                v = c
            elif form == "negative":
                v = c - (1 << 32)
                if v == -(1 << 32):
                    continue
            elif form == "plus2^32":
                v = c + (1 << 32)
            else:
                v = c + (1 << 33)
            consts.append((c, v))
    for i in range(0, len(consts), 31):
        chunk = consts[i:i + 31]
        lines = []
        for r, (c, v) in enumerate(chunk, start=1):
            lines.append(f"li x{r}, {lit(v, (r + seed + i) % 3)}")
        text = "\n".join(lines) + "\n"
        p.evaluations += len(chunk)
        d = None
        try:
            a = asm.assemble(text)
            sim = a.sim
            junk_registers(sim)
            n = 0
            while not sim.is_done() and n < 100:
                sim.step()
                n += 1
            regs = [int(x) for x in sim.state.register_file.registers]
            for r, (c, v) in enumerate(chunk, start=1):
                if (c & 0xFFF) >= 0x800:
                    p.nontrivial += 1
                    p.counters["li-carry-into-upper-part"] += 1
                elif c >> 12:
                    p.nontrivial += 1
                if regs[r] != c:
                    d = f"'{lines[r - 1]}' leaves {regs[r]:#x} in x{r}, expected {c:#x}"
                    p.violation(dict(oracle="li-constant", field="value"), dict(kind="li", line=lines[r - 1], c=c, r=r), d, size=(c,))
        except CaseTimeout:
            p.violation(dict(oracle="li-constant", field="termination"), dict(kind="li-text", text=text), "load_program did not terminate", size=(hi, lo_start))
        except Exception as e:  # noqa
            p.violation(dict(oracle="li-constant", field="error"), dict(kind="li-text", text=text), f"{type(e).__name__}: {e!r} for {text[:80]!r}", size=(hi, lo_start))
    if lo_start == 0 and hi == 0:
        p.sample(dict(kind="li", line="li x7, -0x801", c=0xFFFFF7FF))
    return p


EXAMPLE = """.data
    empty_array: .zero 64 # reserves space for 64 words (256 bytes)
    # The following two declarations of 'my_var1' are equivalent,
    # since zero padding is used to ensure word alignment of new variables/arrays.
    my_var1: .byte -128
    # my_var1: .byte -128, 0, 0, 0
    my_var2: .half 0x1234, 0b1010, 999
    my_var3: .word 0x12345678, 0b111
    text1:   .string "Hello, World!"  # ASCII byte array
.text
    la x1, my_var1     # load address of my_var1 into x1
    lh x2, my_var2     # load halfword from my_var2 into x2
    lh x3, my_var2[0]  # same effect as above
    lh x4, my_var2[2]  # x4 = 999
    lw x5, my_var3[1]  # x5 = 0b111
    lb x6, text1[11]   # x6 = '!'
    lb x7, text1[12]
    la x8, empty_array[3]
"""


def example_check():
    a = asm.assemble(EXAMPLE)
    sim = a.sim
    n = 0
    while not sim.is_done() and n < 200:
        sim.step()
        n += 1
    regs = [int(x) for x in sim.state.register_file.registers]
    # the help page's comment "x6 = '!'" is off by one ('!' is element 12, element 11 is 'd'): element semantics decide
    exp = {1: DATA + 256, 2: 0x1234, 3: 0x1234, 4: 999, 5: 7, 6: ord("d"), 7: ord("!"), 8: DATA + 12}
    for r, v in exp.items():
        if regs[r] != v:
            return f"help-page example: x{r} = {regs[r]:#x}, documented {v:#x}"
    return None


def replay(case):
    k = case["kind"]
    if k == "decls":
        decls = [SHAPES[i] for i in case["idx"]]
        p = Partial()
        bad = check_decls(decls, case["radix"], case["order"], case["stores"], p)
        return [(dict(oracle="data-layout", field=f, **decl_features(decls)), d) for f, d, _t in bad]
    if k == "li":
        a = asm.assemble(case["line"] + "\n")
        sim = a.sim
        junk_registers(sim)
        n = 0
        while not sim.is_done() and n < 10:
            sim.step()
            n += 1
        r = int(case["line"].split()[1].strip("x,"))
        got = int(sim.state.register_file.registers[r])
        return [] if got == case["c"] else [(dict(oracle="li-constant", field="value"), f"{case['line']!r} leaves {got:#x}, expected {case['c']:#x}")]
    if k == "li-text":
        try:
            asm.assemble(case["text"])
            return []
        except Exception as e:  # noqa
            return [(dict(oracle="li-constant", field="error"), repr(e))]
    d = example_check()
    return [(dict(oracle="example", field="registers"), d)] if d else []


def run(ctx):
    thorough = not ctx.quick
    ctx.rule = ("(a) every sequence of up to 2 (3) declarations over 20 shapes (.byte/.half/.word with 1-5 values incl. negative and out-of-range literals in three "
                "radices, .string of 0-4 characters, .zero 0-2 and .zero 510 / 1023 so that later variables straddle a 2 KiB boundary), .data before and after .text, every other case loaded into a simulation that had already loaded (not run) a program with a larger non-zero data segment; for every variable and every index 0..len (one past the end) a la, "
                "a zero- and a sign-extending width-matching load-by-name, and (for every element) a store-by-name. Oracles: reference layout (first data address, "
                "4-byte alignment of every variable, strides 1/2/4, little-endian, values mod element width, NUL terminator, .zero n = n words of stride 4): byte image "
                "over the whole segment, registers after running the program, memory after the stores, and memory-table rows for every word holding a declared byte. "
                "(b) li rd, c for all 4096 low-12-bit patterns x 8 boundary upper parts, written plain, as negative literal and with 2^32 (2^33) added, in rotating "
                "radices, 31 per assembled program, executed. The help-page example must yield its documented values. Non-trivial = any multi-declaration or non-.zero "
                "segment / constant with a non-zero upper part or carry.")
    ctx.assumptions += ["the help page's comment for text1[11] ('!') is off by one; element semantics ('d') are used",
                        "words reserved by .zero are 'don't care' in the memory-table comparison"]
    n = len(SHAPES)
    for L, orders, stores in ((1, (0, 1), True), (2, (0, 1), True)) + (((3, (ctx.seed % 2,), False),) if ctx.quick else ((3, (0, 1), True),)):
        t0 = time.time()
        shards = [(L, f, orders, stores, ctx.seed) for f in range(n)]
        if ctx.quick and L == 3:
            shards = [(L, (f,), orders, stores, ctx.seed) for f in QUICK3]
        part = pmap(decl_shard, shards)
        ctx.space(f"declarations-len{L}", part, t0, shapes=n, length=L, segment_orders=len(orders), store_by_name=stores)
    t0 = time.time()
    forms = ("plain", "negative", "plus2^32") + (("plus2^33",) if thorough else ())
    shards = [(hi, lo, lo + 256, forms, ctx.seed) for hi in HIGH for lo in range(0, 4096, 256)]
    part = pmap(li_shard, shards)
    ctx.space("li-constants", part, t0, low_patterns=4096, upper_parts=len(HIGH), forms=list(forms))
    t0 = time.time()
    part = Partial()
    part.evaluations += 1
    part.nontrivial += 1
    d = example_check()
    if d:
        part.violation(dict(oracle="example", field="registers"), dict(kind="example"), d)
    ctx.space("help-page-example", part, t0)
    ctx.require("alignment-after-odd-sized-variable", "string", "zero-reservation", "li-carry-into-upper-part", "variable-behind-a-2KiB-boundary", "loaded-over-an-earlier-program", "loaded-again-after-a-rejected-program", "loaded-after-an-earlier-program-was-looked-at", "data-memory-with-another-first-address", "assembled-with-a-data-cache")
