"""C02 — five-stage pipeline with hazard detection is equivalent to single-cycle mode (ENUM, exploration).

Differential oracle against the *real* single-cycle simulation of the same program and initial state.
"""
from __future__ import annotations

import itertools
import time

from vf.adapt import rv
from vf.checks import alpha, c01
from vf.engine.core import Partial, pmap
from vf.ref import rv32
from vf.ref.pipeline import PipeRef

ID = "C02"
LEVEL = "exploration"
BASE = rv32.MINADDR
M = rv32.M


def build(mode, progmap, regs, words, pc0=0, hazard=True, caches=None):
    """caches: None or (data-cache tuple or None, instruction-cache tuple or None), each (index bits, block bits, ways, kind, policy, penalty)."""
    dc = rv.cache_opts(*caches[0]) if caches and caches[0] else None
    ic = rv.cache_opts(*caches[1]) if caches and caches[1] else None
    sim = rv.make_sim(mode, [], regs, words, hazard=hazard, dcache=dc, icache=ic)
    im = sim.state.instruction_memory
    for a, ins in progmap.items():
        im.write_instruction(a, rv.impl_of(ins, a))
    if pc0:
        sim.state.program_counter = pc0
    return sim


def run_five_until(sim, maxcycles, stop_after_retired=None):
    """Five-stage run; optionally stop right after the n-th retirement."""
    retired = []
    err = err_repr = exc = None
    n = 0
    try:
        while not sim.is_done() and n < maxcycles:
            sim.step()
            n += 1
            a = rv.retire_addr(sim)
            if a is not None:
                retired.append(a)
                if stop_after_retired is not None and len(retired) >= stop_after_retired:
                    break
    except rv.InstructionExecutionException as e:
        err, err_repr = e.address, e.instruction_repr
    except Exception as e:  # noqa
        exc = f"{type(e).__name__}: {e}"
    return retired, err, err_repr, exc, n


def compare_modes(progmap, regs, words, steps, pc0=0, caches=None, hazard=True):
    """Returns (single RunResult, list of (field, detail))."""
    s1 = build(rv.SINGLE, progmap, regs, words, pc0, caches=caches)
    one = rv.run(s1, steps)
    bad = []
    if one.exc is not None:
        return one, [("single-exception", one.exc)]
    s5 = build(rv.FIVE, progmap, regs, words, pc0, hazard=hazard, caches=caches)
    budget = 8 * max(one.steps, 1) + 16
    finished = one.done or one.err is not None
    retired, err, err_repr, exc, n = run_five_until(s5, budget, None if finished else len(one.retired))
    if exc is not None:
        return one, [("exception", exc)]
    st = s5.state
    regs5 = rv.regs_of(s5)
    if not finished:
        # single-cycle mode hit the step horizon: compare the retire-order prefix and the register file /
        # output at the point where the same number of instructions has retired (registers are written in
        # order at write-back, ecalls only act once all older instructions are gone)
        if err is not None:
            bad.append(("fault", f"five-stage faults at {err} ({err_repr}); single-cycle still running after {one.steps} steps"))
        elif retired != one.retired[: len(retired)] or len(retired) < len(one.retired):
            bad.append(("order", f"retire order (prefix): single {one.retired[:16]} five-stage {retired[:16]}"))
        else:
            if regs5 != one.regs:
                bad.append(("reg", _regdiff(one.regs, regs5)))
            if st.output != one.out:
                bad.append(("out", f"output single {one.out!r} five-stage {st.output!r}"))
        return one, bad
    if one.err is not None:
        if err != one.err:
            bad.append(("fault", f"single-cycle faults at {one.err}, five-stage reports {err}"
                        + ("" if err is not None else f" (five-stage done={s5.is_done()} after {n} cycles)")))
    elif err is not None:
        bad.append(("fault", f"five-stage faults at {err} ({err_repr}), single-cycle does not"))
    elif not s5.is_done():
        bad.append(("termination", f"single-cycle terminates after {one.steps} steps, five-stage still running after {n} cycles"))
    if regs5 != one.regs:
        bad.append(("reg", _regdiff(one.regs, regs5)))
    mem5 = rv.mem_image(s5)
    if mem5 != one.mem:
        ks = sorted(set(mem5) ^ set(one.mem) | {a for a in mem5 if a in one.mem and mem5[a] != one.mem[a]})[:4]
        bad.append(("mem", f"memory differs at {[(hex(a), one.mem.get(a, 0), mem5.get(a, 0)) for a in ks]}"))
    if st.output != one.out:
        bad.append(("out", f"output single {one.out!r} five-stage {st.output!r}"))
    if st.exit_code != one.exit:
        bad.append(("exit", f"exit code single {one.exit!r} five-stage {st.exit_code!r}"))
    if one.err is None and err is None:
        pm = st.performance_metrics
        if retired != one.retired:
            bad.append(("order", f"retire order single {one.retired[:16]} five-stage {retired[:16]}"))
        if pm.instruction_count != one.ic:
            bad.append(("count", f"instruction_count single {one.ic} five-stage {pm.instruction_count}"))
        if pm.branch_count != one.bc:
            bad.append(("branch-count", f"branch_count single {one.bc} five-stage {pm.branch_count}"))
        if pm.procedure_count != one.jc:
            bad.append(("call-count", f"procedure_count single {one.jc} five-stage {pm.procedure_count}"))
    return one, bad


def _regdiff(a, b):
    d = [(i, hex(a[i]), hex(b[i])) for i in range(32) if a[i] != b[i]]
    return f"registers differ (index, single, five-stage): {d[:4]}"


def case_of(progmap, regs, words, steps, pc0, caches=None):
    return dict(kind="pipe", caches=caches, progmap={str(a): list(i) for a, i in sorted(progmap.items())},
                prog=[list(progmap[a]) for a in sorted(progmap)], regs={str(k): v for k, v in regs.items()},
                words={str(k): v for k, v in words.items()}, steps=steps, pc0=pc0)


def replay(case):
    progmap = {int(a): tuple(i) for a, i in case["progmap"].items()}
    regs = {int(k): v for k, v in case["regs"].items()}
    words = {int(k): v for k, v in case["words"].items()}
    caches = case.get("caches")
    if caches:
        caches = tuple(tuple(c) if c else None for c in caches)
    _one, bad = compare_modes(progmap, regs, words, case["steps"], case.get("pc0", 0), caches=caches)
    sigextra = case.get("sig", {})
    return [(dict(oracle="five-vs-single", field=f, **sigextra), f"{_ptxt(progmap)}: {d}") for f, d in bad]


def _ptxt(progmap):
    return "[" + "; ".join(f"{a}: {rv.ins_text(i)}" for a, i in sorted(progmap.items())) + "]"


# ------------------------------------------------------------------------------------------------
# (a) operand sweep through the pipeline, control transfers embedded in landing pads
# ------------------------------------------------------------------------------------------------
MARK = [("addi", 21, 0, 0, 1), ("addi", 22, 0, 0, 2), ("addi", 23, 0, 0, 3), ("addi", 24, 0, 0, 4)]


def padded(ins, regs, at):
    """Program map: the instruction at `at`, markers at the fall-through and at the transfer target."""
    pm = {at: ins}
    op = ins[0]
    for k, a in enumerate((at + 4, at + 8)):
        if 0 <= a < rv32.IMEM_END:
            pm.setdefault(a, MARK[k])
    tgt = None
    if op in rv32.BR:
        tgt = at + rv32.sx(ins[4], 13)
    elif op == "jal":
        tgt = at + rv32.sx(ins[4], 21)
    elif op == "jalr":
        tgt = (((regs.get(ins[2], 0) if ins[2] else 0) + rv32.sx(ins[4], 12)) & M) & ~1
    if tgt is not None:
        for k, a in enumerate((tgt, tgt + 4)):
            if 0 <= a < rv32.IMEM_END and a % 4 == 0:
                pm.setdefault(a, MARK[2 + k])
    return pm


def sweep_shard(shard):
    cls, op, seed, thorough, part, parts, lite = shard
    c01.LITE = lite
    p = Partial()
    for i, (ins, regs, words, at) in enumerate(c01.GEN[cls](op, seed, thorough)):
        if i % parts != part:
            continue
        pm = padded(ins, regs, at)
        one, bad = compare_modes(pm, regs, words, 12, at)
        p.evaluations += 1
        if one.err is not None:
            p.counters["fault"] += 1
        if len(one.retired) > 1 or one.err is not None:
            p.nontrivial += 1
        if one.retired[1:2] and one.retired[1] != at + 4:
            p.counters["transfer"] += 1
        if i < 1 and part == 0:
            p.sample(case_of(pm, regs, words, 12, at))
        for f, d in bad:
            c = case_of(pm, regs, words, 12, at)
            c["sig"] = dict(op=ins[0])
            p.violation(dict(oracle="five-vs-single", field=f, op=ins[0]), c,
                        f"{_ptxt(pm)} start={at} regs={ {k: hex(v) for k, v in regs.items()} }: {d}", size=(1, i))
    return p


# ------------------------------------------------------------------------------------------------
# (b) programs over the hazard alphabets, (c) templates
# ------------------------------------------------------------------------------------------------
def ref_events(prog, st, steps):
    r, m = rv.ref_state(st["regs"], st["words"])
    pr = PipeRef({4 * i: ins for i, ins in enumerate(prog)}, r, m, True)
    pr.run(8 * steps + 16)
    return pr.events


def prog_shard(shard):
    seed, big, length, firsts, nstates, steps, only_extra = shard
    H = alpha.hazard_alphabet(seed, big)
    states = alpha.init_states(seed, nstates)
    p = Partial()
    nf = len(firsts)
    for tail in itertools.product(range(len(H)), repeat=length - nf):
        idx = tuple(firsts) + tail
        if only_extra and all(i < 18 for i in idx):
            continue
        prog = [H[i] for i in idx]
        pm = {4 * i: ins for i, ins in enumerate(prog)}
        for si, st in enumerate(states):
            one, bad = compare_modes(pm, st["regs"], st["words"], steps)
            p.evaluations += 1
            ev = ref_events(prog, st, steps)
            if ev:
                p.nontrivial += 1
                for e in ev:
                    p.counters[e] += 1
            if not (one.done or one.err is not None):
                p.counters["horizon"] += 1
            for f, d in bad:
                p.violation(dict(oracle="five-vs-single", field=f), case_of(pm, st["regs"], st["words"], steps, 0),
                            f"[{rv.prog_text(prog)}] init#{si}: {d}", size=(length, idx, si))
    if firsts == (0,) or firsts == (0, 0):
        p.sample(case_of({4 * i: H[(3 * i) % len(H)] for i in range(length)}, states[0]["regs"], states[0]["words"], steps, 0))
    return p


def templates(seed, thorough):
    """Long-distance interactions that short sequences cannot contain: counted loop, call/return, ecall after load."""
    r1, r2, r3 = alpha.regs_for_seed(seed)
    H = alpha.hazard_alphabet(seed, False)
    body_syms = [h for h in H if h[0] not in ("beq", "bne", "jal", "jalr")] if not thorough else H
    cnt = 25  # loop counter register
    out = []
    for b1, b2 in itertools.product(body_syms, repeat=2):
        for tail in (H if thorough else H[:6]):
            # counted loop: 2 iterations
            prog = [("addi", cnt, 0, 0, 2), b1, b2, ("addi", cnt, cnt, 0, -1), ("bne", 0, cnt, 0, -12), tail, ("addi", 26, 0, 0, 9)]
            out.append(("loop", prog))
        # call / return
        prog = [("jal", 27, 0, 0, 16), ("addi", 26, 0, 0, 9), ("addi", 17, 0, 0, 93), ("ecall", 0, 0, 0, 0), b1, b2, ("jalr", 0, 27, 0, 0), ("addi", 26, 0, 0, 7)]
        out.append(("call", prog))
        # printing ecall fed by a load, followed by side effects
        prog = [("lw", 10, r3, 0, 0), ("addi", 17, 0, 0, 1), b1, ("ecall", 0, 0, 0, 0), b2, ("add", 26, 10, r1, 0)]
        out.append(("ecall-after-load", prog))
    return out


def template_shard(shard):
    seed, thorough, part, parts, nstates, steps = shard
    states = alpha.init_states(seed, nstates)
    p = Partial()
    for i, (name, prog) in enumerate(templates(seed, thorough)):
        if i % parts != part:
            continue
        pm = {4 * k: ins for k, ins in enumerate(prog)}
        for si, st in enumerate(states):
            one, bad = compare_modes(pm, st["regs"], st["words"], steps)
            p.evaluations += 1
            p.nontrivial += 1
            p.counters["template-" + name] += 1
            for f, d in bad:
                p.violation(dict(oracle="five-vs-single", field=f), case_of(pm, st["regs"], st["words"], steps, 0),
                            f"template {name} [{rv.prog_text(prog)}] init#{si}: {d}", size=(len(prog), i, si))
        if i == 0:
            p.sample(case_of(pm, states[0]["regs"], states[0]["words"], steps, 0))
    return p


def chain_shard(shard):
    """Producer -> consumer chains of C01, run in both modes (a result left by the pipeline's write-back path must behave
    as a 32-bit value in every consumer, exactly as in single-cycle mode)."""
    seed, part, parts = shard
    p = Partial()
    prods = c01.producers(seed)
    cons = c01.consumers(14)
    k = 0
    for ins, regs, words in prods:
        for c in cons:
            k += 1
            if k % parts != part:
                continue
            prog = [ins] + c
            rg = dict(regs)
            rg.update({16: 3, 20: BASE + 64})
            wd = dict(words)
            wd.update({BASE + 64: 0x5A5A5A5A})
            pm = {4 * i: x for i, x in enumerate(prog)}
            one, bad = compare_modes(pm, rg, wd, len(prog) + 2)
            p.evaluations += 1
            p.nontrivial += 1
            p.counters["producer-consumer-chain"] += 1
            for f, d in bad:
                p.violation(dict(oracle="five-vs-single", field=f), case_of(pm, rg, wd, len(prog) + 2, 0), f"[{rv.prog_text(prog)}]: {d}", size=(len(prog), k))
    return p


def fault_neighbour_shard(shard):
    """A faulting instruction with independent register-writing / storing / printing instructions directly in front of it
    and behind it: at the fault both modes must show the same registers, memory and output."""
    seed, part, parts = shard
    p = Partial()
    r1, r2, r3 = alpha.regs_for_seed(seed)
    faults = [("lw", 9, 0, 0, 0), ("sw", 0, 0, r1, 8), ("lb", 9, 25, 0, -1), ("sh", 0, 25, r2, -2), ("lw", 9, 26, 0, 0), ("ecall", 0, 0, 0, 0)]
    before = [("addi", 8, 0, 0, 5), ("lw", 8, r3, 0, 0), ("mul", 8, r3, r3, 0), ("sw", 0, r3, r3, 4), ("lui", 8, 0, 0, 7), ("addi", 17, 0, 0, 0)]
    after = [("addi", 7, 0, 0, 9), ("sw", 0, r3, r3, 8), ("addi", 17, 0, 0, 1)]
    k = 0
    for f in faults:
        for b1 in before:
            for b2 in before:
                for a1 in after:
                    k += 1
                    if k % parts != part:
                        continue
                    prog = [b1, b2, f, a1]
                    regs = {r1: 3, r2: 4, r3: BASE, 25: BASE, 26: 0x3FFC, 17: 5 if f[0] == "ecall" else 1, 10: 7}
                    pm = {4 * i: x for i, x in enumerate(prog)}
                    one, bad = compare_modes(pm, regs, {BASE: 12}, 12)
                    p.evaluations += 1
                    if one.err is not None:
                        p.nontrivial += 1
                        p.counters["fault-with-independent-neighbours"] += 1
                    for fl, d in bad:
                        p.violation(dict(oracle="five-vs-single", field=fl), case_of(pm, regs, {BASE: 12}, 12, 0), f"[{rv.prog_text(prog)}]: {d}", size=(4, k))
    return p


CACHED = [((0, 0, 1, "wb", "lru", 0), None), ((0, 0, 2, "wt", "lru", 3), None), ((1, 0, 2, "wb", "plru", 1), (0, 0, 2, "wb", "lru", 2)),
          ((0, 1, 1, "wt", "lru", 2), (1, 1, 1, "wb", "lru", 0)), (None, (0, 1, 2, "wb", "plru", 3)), ((1, 1, 2, "wt", "plru", 0), (0, 0, 4, "wb", "plru", 1))]


def cached_shard(shard):
    """Mode equivalence with caches switched on: every program over the memory alphabet of C03 (loads and stores of every width
    that conflict in one set, stores through a negative address, print-string ecall, wrong-path accesses) under data / instruction
    cache configurations — five-stage mode must equal single-cycle mode run with the SAME caches."""
    from vf.checks import c03
    length, first = shard
    A = c03.mem_alphabet()
    p = Partial()
    for tail in itertools.product(range(len(A)), repeat=length - 1):
        idx = (first,) + tail
        prog = [A[i] for i in idx]
        pm = {4 * i: x for i, x in enumerate(prog)}
        str_regs = {**c03.PROG_REGS, 17: 4, 10: c03.BASE + 64}
        for regs_in in ((c03.PROG_REGS, str_regs) if any(i[0] == "ecall" for i in prog) else (c03.PROG_REGS,)):
            for ci, caches in enumerate(CACHED):
                one, bad = compare_modes(pm, regs_in, c03.PROG_WORDS, 40, caches=caches)
                p.evaluations += 1
                if one.steps > 1:
                    p.nontrivial += 1
                p.counters["mode-equivalence-with-caches"] += 1
                for fl, d in bad:
                    p.violation(dict(oracle="five-vs-single", field=fl, caches="on"), dict(case_of(pm, regs_in, c03.PROG_WORDS, 40, 0, caches), sig=dict(caches="on")),
                                f"[{rv.prog_text(prog)}] caches {caches}{' a7=4 a0=string' if regs_in is str_regs else ''}: {d}", size=(length, idx, ci))
    return p


def regsweep_programs():
    """Every register number x1..x31 as the register a dependency runs through (the hazard alphabets use three registers):
    producer -> consumer at distance 1 and 2, as first / second ALU operand, load base, store data and base, branch operand,
    jalr base, and as a destination that is written twice."""
    out = []
    for reg in range(1, 32):
        o = 5 if reg != 5 else 6
        o2 = 7 if reg != 7 else 8
        nop = ("addi", 0, 0, 0, 0)
        T = [
            [("addi", reg, 0, 0, 5), ("add", o, reg, 0, 0)],
            [("addi", reg, 0, 0, 5), ("add", o, 0, reg, 0)],
            [("addi", reg, 0, 0, 5), nop, ("sub", o, reg, reg, 0)],
            [("addi", reg, 0, 0, 5), nop, nop, ("add", o, reg, reg, 0)],
            [("lui", reg, 0, 0, 4), ("lw", o, reg, 0, 64)],
            [("addi", reg, 0, 0, 7), ("sw", 0, 20, reg, 0), ("lw", o, 20, 0, 0)],
            [("lui", reg, 0, 0, 4), nop, ("sb", 0, reg, 16, 65)],
            [("addi", reg, 0, 0, 1), ("beq", 0, reg, 0, 8), ("addi", o, 0, 0, 1), ("addi", o2, 0, 0, 2)],
            [("addi", reg, 0, 0, 1), nop, ("bne", 0, 0, reg, 8), ("addi", o, 0, 0, 1), ("addi", o2, 0, 0, 2)],
            [("addi", reg, 0, 0, 16), ("jalr", o, reg, 0, 0), ("addi", o2, 0, 0, 1), ("addi", o2, 0, 0, 2), ("addi", o2, o2, 0, 4)],
            [("lw", reg, 20, 0, 0), ("addi", reg, reg, 0, 1), ("add", o, reg, reg, 0)],
            [("addi", reg, 0, 0, 3), ("addi", reg, 0, 0, 4), ("add", o, reg, 0, 0)],
        ]
        for k, prog in enumerate(T):
            out.append((reg, k, prog))
    return out


REGSWEEP_REGS = {16: 3, 20: BASE + 64}
REGSWEEP_WORDS = {BASE + 64: 0x5A5A5A5A}


def regsweep_shard(shard):
    part, parts = shard
    p = Partial()
    for i, (reg, k, prog) in enumerate(regsweep_programs()):
        if i % parts != part:
            continue
        pm = {4 * j: x for j, x in enumerate(prog)}
        one, bad = compare_modes(pm, REGSWEEP_REGS, REGSWEEP_WORDS, len(prog) + 4)
        p.evaluations += 1
        p.nontrivial += 1
        p.counters["dependency-through-every-register"] += 1
        for f, d in bad:
            p.violation(dict(oracle="five-vs-single", field=f, sweep="registers"), dict(case_of(pm, REGSWEEP_REGS, REGSWEEP_WORDS, len(prog) + 4, 0), sig=dict(sweep="registers")),
                        f"[{rv.prog_text(prog)}]: {d}", size=(len(prog), reg, k))
    return p


def long_shard(shard):
    """Runs of hundreds / thousands of cycles (long straight-line code, counted loops with stalls, flushes, stores, calls, prints)."""
    from vf.checks import c07
    seed, k, ci = shard
    name, prog, _n = c07.long_programs(seed)[k]
    caches = None if ci is None else CACHED[ci]
    pm = {4 * i: x for i, x in enumerate(prog)}
    p = Partial()
    one, bad = compare_modes(pm, c07.LONG_REGS, c07.LONG_WORDS, 6000, caches=caches)
    p.evaluations += 1
    p.nontrivial += 1
    if one.steps > 256:
        p.counters["run-longer-than-256-instructions"] += 1
    for fl, d in bad:
        p.violation(dict(oracle="five-vs-single", field=fl, long="run"), dict(case_of(pm, c07.LONG_REGS, c07.LONG_WORDS, 6000, 0, caches), sig=dict(long="run")),
                    f"{name} [{rv.prog_text(prog[:8])}{' ...' if len(prog) > 8 else ''}] caches {caches}: {d}", size=(len(prog), k))
    return p


def program_shards(seed, big, L, nstates, steps):
    n = len(alpha.hazard_alphabet(seed, big))
    if L >= 4:
        return [(seed, big, L, (f, g), nstates, steps, big) for f in range(n) for g in range(n)]
    return [(seed, big, L, (f,), nstates, steps, big) for f in range(n)]


def run(ctx):
    seed, thorough = ctx.seed, not ctx.quick
    ctx.rule = ("(a) every case of the C01 operand sweep (boundary immediates in quick, all in thorough) run through the five-stage "
                "pipeline inside a landing pad of marker instructions; (b) every program up to a length bound over H18/H30 from "
                "several initial states; (c) loop / call-return / ecall-after-load templates with holes filled exhaustively. Each "
                "case is executed in real single-cycle mode and real five-stage mode and compared (registers, memory, output, exit "
                "code, counters, retire order, fault address). Non-trivial = the reference pipeline run has a stall, drain, flush, "
                "squash, print, exit or fault (programs), or more than the instruction itself retires / it faults (sweep).")
    ctx.assumptions += [
        "pc is not compared (the property does not list it)",
        "when single-cycle mode reaches the step horizon only the retire-order prefix, registers and output at the same retirement count are compared",
        "counters are not compared when the run ends in a fault",
    ]
    ctx.require("stall", "drain", "flush", "squash", "stall-cancelled", "exit-in-ex", "print", "fault")
    t0 = time.time()
    shards = []
    for cls, _g, ops in c01.CLASSES:
        parts = {"rtype": 8, "itype": 8 if thorough else 2, "utype": 16 if thorough else 1, "branch": 4, "jalr": 4}.get(cls, 2)
        for op in ops:
            for part in range(parts):
                shards.append((cls, op, seed, thorough, part, parts, not thorough))
    part = pmap(sweep_shard, shards)
    ctx.space("operand-sweep-through-pipeline", part, t0)
    t0 = time.time()
    part = pmap(chain_shard, [(seed, i, 32) for i in range(32)])
    ctx.space("producer-consumer-chains", part, t0)
    t0 = time.time()
    part = pmap(fault_neighbour_shard, [(seed, i, 16) for i in range(16)])
    ctx.space("faults-with-independent-neighbours", part, t0)
    ctx.require("fault-with-independent-neighbours")
    steps = 24 if ctx.quick else 40
    nstates = 2 if ctx.quick else 4
    plan = [(False, L) for L in range(1, (4 if ctx.quick else 5) + 1)]
    plan += [(True, L) for L in range(1, (3 if ctx.quick else 4) + 1)]
    for big, L in plan:
        t0 = time.time()
        part = pmap(prog_shard, program_shards(seed, big, L, nstates, steps))
        ctx.space(f"programs-{'H30' if big else 'H18'}-len{L}", part, t0, length=L, init_states=nstates, step_horizon=steps,
                  note="only programs containing at least one of the 12 extra symbols" if big else "")
    t0 = time.time()
    parts = 64
    part = pmap(template_shard, [(seed, thorough, i, parts, nstates, 60) for i in range(parts)])
    ctx.space("templates", part, t0)
    from vf.checks import c03
    for L in range(1, (3 if ctx.quick else 4) + 1):
        t0 = time.time()
        part = pmap(cached_shard, [(L, f) for f in range(len(c03.mem_alphabet()))])
        ctx.space(f"cached-programs-len{L}", part, t0, length=L, cache_configurations=len(CACHED),
                  note="five-stage vs single-cycle, both with the same data / instruction caches")
    ctx.require("mode-equivalence-with-caches")
    from vf.checks import c07
    t0 = time.time()
    part = pmap(long_shard, [(seed, k, ci) for k in range(len(c07.long_programs(seed))) for ci in (None, 2, 5)])
    ctx.space("long-runs", part, t0, programs=[n for n, _p, _k in c07.long_programs(seed)], cache_configurations=["none", "#2", "#5"])
    ctx.require("run-longer-than-256-instructions")
    t0 = time.time()
    part = pmap(regsweep_shard, [(i, 16) for i in range(16)])
    ctx.space("dependencies-through-every-register", part, t0, registers="x1..x31", templates=12)
    ctx.require("dependency-through-every-register")
    ctx.extra["bounds"] = dict(program_length_H18=4 if ctx.quick else 5, program_length_H30=3 if ctx.quick else 4, step_horizon=steps)
