"""C08 — hazard detection off behaves exactly as an interlock-free pipeline (ENUM + BFS fixed point)."""
from __future__ import annotations

import itertools
import time

from vf.adapt import rv
from vf.checks import alpha, c07, pipecmp
from vf.checks.c02 import program_shards
from vf.engine.core import Partial, pmap
from vf.ref import rv32

ID = "C08"
LEVEL = "model_checking"
ORACLE = "interlock-free"
WANT = ("cycle", "retire", "final", "stalls")
NOP = ("addi", 0, 0, 0, 0)


def pad(prog):
    """Two nops behind every instruction; pc-relative offsets scaled by 3."""
    out = []
    for ins in prog:
        op, rd, rs1, rs2, imm = ins
        if op in rv32.BR or op == "jal":
            ins = (op, rd, rs1, rs2, 3 * imm)
        out += [ins, NOP, NOP]
    return out


def padded_ok(prog):
    """jalr computes absolute targets from register values, which padding does not rescale: such programs stay
    meaningful (they are still programs), but link values differ from the unpadded program — irrelevant here,
    because the oracle is the golden *sequential* run of the padded program itself."""
    return True


def padded_shard(shard):
    seed, length, first, nstates, steps = shard
    H = alpha.hazard_alphabet(seed, False)
    states = alpha.init_states(seed, nstates)
    p = Partial()
    for tail in itertools.product(range(len(H)), repeat=length - 1):
        idx = (first,) + tail
        prog = pad([H[i] for i in idx])
        pd = {4 * i: ins for i, ins in enumerate(prog)}
        for si, st in enumerate(states):
            r, m = rv.ref_state(st["regs"], st["words"])
            exp = rv32.run_seq(pd, r, m, 3 * steps)
            if not (exp.done or exp.err is not None):
                p.counters["horizon-skipped"] += 1
                continue
            sim = rv.make_sim(rv.FIVE, prog, st["regs"], st["words"], hazard=False)
            got = rv.run(sim, 8 * 3 * steps + 16)
            p.evaluations += 1
            # non-trivial: some register dependency exists at distance exactly 3 (i.e. adjacent before padding)
            dep = False
            for i in range(3, len(prog)):
                d = rv32.dest(prog[i - 3])
                if d and d in rv32.srcs(prog[i]):
                    dep = True
                    break
            if dep:
                p.nontrivial += 1
                p.counters["raw-at-distance-3"] += 1
            bad = []
            if got.exc is not None:
                bad.append(("exception", got.exc))
            else:
                if exp.err is not None or got.err is not None:
                    if exp.err != got.err:
                        bad.append(("fault", f"sequential run faults at {exp.err}, interlock-free pipeline at {got.err}"))
                elif not got.done:
                    bad.append(("termination", "padded program does not terminate with hazard detection off"))
                if got.regs != exp.regs:
                    d = [(i, hex(exp.regs[i]), hex(got.regs[i])) for i in range(32) if exp.regs[i] != got.regs[i]]
                    bad.append(("padded-reg", f"registers differ from the sequential result (index, sequential, pipeline): {d[:4]}"))
                if got.mem != exp.mem:
                    bad.append(("padded-mem", "memory differs from the sequential result"))
                if got.out != exp.out or got.exit != exp.exit:
                    bad.append(("padded-out", f"output/exit differ: sequential {exp.out!r}/{exp.exit} pipeline {got.out!r}/{got.exit}"))
                if exp.err is None and got.err is None and got.retired != exp.retired:
                    bad.append(("padded-order", f"retire order differs: {exp.retired[:10]} vs {got.retired[:10]}"))
            for f, d in bad:
                c = pipecmp.case_of(prog, st["regs"], st["words"], 8 * 3 * steps + 16, False)
                c["kind"] = "padded"
                c["seqsteps"] = 3 * steps
                p.violation(dict(oracle="padded-equals-sequential", field=f), c, f"padded [{rv.prog_text(prog)}] init#{si}: {d}",
                            size=(length, idx, si))
    return p


def sweep_shard(shard):
    """The operand sweep of C01/C02 with the interlock off: one instruction with preset operands between marker instructions
    that depend on nothing — every register dependency is further than three slots away, so the results equal single-cycle mode."""
    from vf.checks import c01, c02
    cls, op, seed, part, parts = shard
    c01.LITE = True
    p = Partial()
    for i, (ins, regs, words, at) in enumerate(c01.GEN[cls](op, seed, False)):
        if i % parts != part:
            continue
        pm = c02.padded(ins, regs, at)
        one, bad = c02.compare_modes(pm, regs, words, 12, at, hazard=False)
        p.evaluations += 1
        p.counters["hazard-free-operand-sweep"] += 1
        if len(one.retired) > 1 or one.err is not None:
            p.nontrivial += 1
        for f, d in bad:
            c = c02.case_of(pm, regs, words, 12, at)
            c["kind"] = "sweep-nohazard"
            p.violation(dict(oracle="hazard-free-equals-single-cycle", field=f, op=ins[0]), c,
                        f"{c02._ptxt(pm)} start={at} regs={ {k: hex(v) for k, v in regs.items()} } hazard_detection=False: {d}", size=(1, i))
    return p


def replay(case):
    if case.get("kind") == "sweep-nohazard":
        from vf.checks import c02
        progmap = {int(a): tuple(i) for a, i in case["progmap"].items()}
        regs = {int(k): v for k, v in case["regs"].items()}
        words = {int(k): v for k, v in case["words"].items()}
        _one, bad = c02.compare_modes(progmap, regs, words, case["steps"], case.get("pc0", 0), hazard=False)
        return [(dict(oracle="hazard-free-equals-single-cycle", field=f), f"{c02._ptxt(progmap)}: {d}") for f, d in bad]
    prog, regs, words, maxc, hazard = pipecmp.case_args(case)
    if case.get("kind") == "padded":
        pd = {4 * i: ins for i, ins in enumerate(prog)}
        r, m = rv.ref_state(regs, words)
        exp = rv32.run_seq(pd, r, m, case["seqsteps"])
        sim = rv.make_sim(rv.FIVE, prog, regs, words, hazard=False)
        got = rv.run(sim, maxc)
        res = []
        if got.exc is not None:
            res.append((dict(oracle="padded-equals-sequential", field="exception"), got.exc))
        if exp.err != got.err:
            res.append((dict(oracle="padded-equals-sequential", field="fault"), f"{exp.err} vs {got.err}"))
        elif exp.err is None and not got.done:
            res.append((dict(oracle="padded-equals-sequential", field="termination"), "does not terminate"))
        if got.regs != exp.regs:
            res.append((dict(oracle="padded-equals-sequential", field="padded-reg"), "registers differ"))
        if got.mem != exp.mem:
            res.append((dict(oracle="padded-equals-sequential", field="padded-mem"), "memory differs"))
        if got.out != exp.out or got.exit != exp.exit:
            res.append((dict(oracle="padded-equals-sequential", field="padded-out"), "output/exit differ"))
        if exp.err is None and got.err is None and got.retired != exp.retired:
            res.append((dict(oracle="padded-equals-sequential", field="padded-order"), "retire order differs"))
        return res
    _ref, bad = pipecmp.lockstep(prog, regs, words, maxc, hazard, WANT, style=case.get("style", "plain"))
    return [(dict(oracle=ORACLE, field=f), f"[{rv.prog_text(prog)}]: {d}") for f, d in bad]


def run(ctx):
    seed, thorough = ctx.seed, not ctx.quick
    ctx.rule = ("Model = reference stage-occupancy machine with the interlock off (an instruction re-reads its sources in every cycle it "
                "spends in decode and keeps the last values). (1) every program up to a length bound over H18/H30 with "
                "detect_data_hazards=False, cycle by cycle against the model (retirements, cycles, final registers/memory/output/exit, "
                "stall counter == number of ecall drains, so no decode stall); (2) control-state fixed point over F with the interlock off; "
                "(3) every program P of bounded length padded with two nops per instruction (offsets x3) equals the golden sequential run. "
                "Non-trivial = the model run has a drain, flush, squash, print, exit or fault / the padded program has a RAW dependency at distance 3.")
    ctx.assumptions += [
        "an ecall reads a7/a0 when it executes (after the drain), not in decode",
        "fixed point: with the data-constant, forward-only alphabet F the future of a paused run depends only on the control key",
    ]
    ctx.require("drain", "flush", "squash", "exit-in-ex", "fault", "raw-at-distance-3", "fp-drain", "fp-flush")
    steps = 24 if ctx.quick else 40
    nstates = 2 if ctx.quick else 4
    plan = [(False, L) for L in range(1, (4 if ctx.quick else 5) + 1)]
    plan += [(True, L) for L in range(1, (3 if ctx.quick else 4) + 1)]
    for big, L in plan:
        t0 = time.time()
        shards = [s + (False, ORACLE) for s in program_shards(seed, big, L, nstates, steps)]
        part = pmap(c07.prog_shard, shards)
        if part.counters.get("stall"):
            from vf.engine.core import InternalError
            raise InternalError("reference machine produced a decode stall with the interlock off")
        ctx.space(f"programs-{'H30' if big else 'H18'}-len{L}-nohazard", part, t0, length=L, init_states=nstates)
    t0 = time.time()
    part = pmap(c07.template_shard, [(seed, thorough, i, 64, nstates, 60, False, ORACLE) for i in range(64)])
    ctx.space("templates-nohazard", part, t0)
    t0 = time.time()
    part = pmap(c07.long_shard, [(seed, k, False, ORACLE) for k in range(len(c07.long_programs(seed)))])
    ctx.space("long-runs-nohazard", part, t0, programs=[n for n, _p, _k in c07.long_programs(seed)])
    ctx.require("run-longer-than-256-cycles", "run-longer-than-2000-cycles")
    t0 = time.time()
    part = pmap(c07.regsweep_shard, [(i, 16, False, ORACLE) for i in range(16)])
    ctx.space("dependencies-through-every-register-nohazard", part, t0, registers="x1..x31", templates=12)
    ctx.require("dependency-through-every-register")
    pipecmp.fixed_point(ctx, seed, False, False, 12, "fixed-point-F12-nohazard")
    if thorough:
        pipecmp.fixed_point(ctx, seed, True, False, 12, "fixed-point-F16-nohazard")
    from vf.checks import c01
    t0 = time.time()
    shards = []
    for cls, _g, ops in c01.CLASSES:
        parts = {"rtype": 8, "itype": 2, "utype": 1, "branch": 4, "jalr": 4}.get(cls, 2)
        for op in ops:
            shards += [(cls, op, seed, part, parts) for part in range(parts)]
    part = pmap(sweep_shard, shards)
    ctx.space("operand-sweep-nohazard", part, t0, note="every mnemonic with boundary operands between independent marker instructions, interlock off, vs single-cycle mode")
    ctx.require("hazard-free-operand-sweep")
    for L in range(1, (3 if ctx.quick else 4) + 1):
        t0 = time.time()
        part = pmap(padded_shard, [(seed, L, f, nstates, steps) for f in range(18)])
        ctx.space(f"padded-len{L}", part, t0, length=L)
