"""C04 — assembler: labels and pseudo-instructions denote the right instructions (ENUM + DEV)."""
from __future__ import annotations

import itertools
import time

from vf.adapt import asm
from vf.checks import freshcmp
from vf.engine.core import CaseTimeout, InternalError, Partial, pmap
from vf.ref import rv32

ID = "C04"
LEVEL = "exploration"
DATA = rv32.MINADDR
M = rv32.M
DATATXT = "v: .word 1, 2, 3\nw: .byte 4, 5\nh: .half 0x1234, 7"
VARS = {"v": (DATA, 4), "w": (DATA + 12, 1), "h": (DATA + 16, 2)}
DATAMEM = {DATA: 1, DATA + 4: 2, DATA + 8: 3, DATA + 12: 0x0504, DATA + 16: 0x00071234}

# ---- expansion classes: name -> (source text, kind, payload) -----------------------------------------------
# kind 'real': payload = expected field tuples (exact operands);  kind 'pseudo': payload = documented effect
CLASSES = {
    "real": ("add x1, x2, x3", "real", [("add", 1, 2, 3, None)]),
    "mem": ("sw x7, -8(x2)", "real", [("sw", None, 2, 7, -8)]),
    "ecall": ("ecall", "real", [("ecall", 0, 0, None, 0)]),
    "nop": ("nop", "pseudo", ("nop",)),
    "mv": ("mv x4, x9", "pseudo", ("mv", 4, 9)),
    "li1": ("li x5, -7", "pseudo", ("li", 5, -7)),
    "li2": ("li x5, 0x12345", "pseudo", ("li", 5, 0x12345)),
    "la": ("la x6, v[2]", "pseudo", ("la", 6, DATA + 8)),
    "ldn": ("lb x7, w[1]", "pseudo", ("load", "lb", 7, DATA + 13)),
    "stn": ("sw x7, v[1], x8", "pseudo", ("store", "sw", 7, 8, DATA + 4)),
    # the same pseudo-instructions without an index, so that sequences mix indexed and un-indexed references
    "la0": ("la x6, w", "pseudo", ("la", 6, DATA + 12)),
    "ldn0": ("lhu x9, h", "pseudo", ("load", "lhu", 9, DATA + 16)),
    "stn0": ("sh x7, h, x8", "pseudo", ("store", "sh", 7, 8, DATA + 16)),
}
NEEDS_DATA = {"la", "ldn", "stn", "la0", "ldn0", "stn0"}
BYNAME = ["la", "ldn", "stn", "la0", "ldn0", "stn0"]
REF_KINDS = ("b", "j")        # branch / jal to a label (+offset)
NUM_KINDS = ("jabs", "bnum")  # jal to an absolute number, branch with a numeric displacement
SIZE_CLASSES = ["real", "li2", "ldn", "b", "j"]
ALL_KINDS = [k for k in CLASSES if not k.endswith("0")] + list(REF_KINDS) + list(NUM_KINDS)
PLACEMENTS = (None, "alone", "inline")
FRAMINGS = ("none", "text", "data-first", "data-last")

_ISOLATED = {}


def isolated(cls):
    """The group the assembler emits for this pseudo-instruction on its own (defines 'the same wherever it occurs')."""
    if cls not in _ISOLATED:
        text = CLASSES[cls][0]
        a = asm.assemble(".data\n" + DATATXT + "\n.text\n" + text + "\n")
        _ISOLATED[cls] = a.fields
    return _ISOLATED[cls]


def effect_ok(cls, group):
    """Run the emitted group on the golden model from arbitrary register contents: documented effect, nothing else touched."""
    spec = CLASSES[cls][2]
    prog = {}
    for i, f in enumerate(group):
        ab = asm.to_abstract(f)
        if ab is None:
            return f"group contains {f[0]}, not a base instruction of the golden model"
        prog[4 * i] = ab
    for junk in (0x1000F00D, 0xFFFFFFFF, 0):
        regs = [0] + [(junk + 0x01010101 * i) & M for i in range(1, 32)]
        before = list(regs)
        mem = rv32.Mem()
        for a, v in DATAMEM.items():
            mem.wr(a, 4, v)
        mem0 = dict(mem.b)
        res = rv32.run_seq(prog, regs, mem, len(group) + 1)
        if res.err is not None:
            return f"group faults at its instruction {res.err // 4} when run from registers filled with {junk:#x}"
        if res.steps != len(group) or res.pc != 4 * len(group):
            return "group does not run straight through"
        allowed = set()
        exp_mem = dict(mem0)
        kind = spec[0]
        if kind == "nop":
            pass
        elif kind == "mv":
            allowed = {spec[1]}
            want = before[spec[2]]
        elif kind == "li":
            allowed = {spec[1]}
            want = spec[2] & M
        elif kind == "la":
            allowed = {spec[1]}
            want = spec[2]
        elif kind == "load":
            _k, mn, rd, addr = spec
            n, sg = rv32.LD[mn]
            v = sum(mem0.get(addr + i, 0) << (8 * i) for i in range(n))
            want = rv32.sx(v, 8 * n) & M if sg else v
            allowed = {rd, 5}  # the help page: "t0 will be overwritten"
        else:
            _k, mn, rs, ra, addr = spec
            n = rv32.ST[mn]
            for i in range(n):
                exp_mem[addr + i] = (before[rs] >> (8 * i)) & 0xFF
            allowed = {ra}
            want = None
            if regs[ra] != addr:
                return f"address register x{ra} holds {regs[ra]:#x} after the store, documented &var = {addr:#x}"
        for r in range(1, 32):
            if r not in allowed and regs[r] != before[r]:
                return f"x{r} changed from {before[r]:#x} to {regs[r]:#x}"
        if kind in ("mv", "li", "la", "load"):
            rd = spec[1] if kind != "load" else spec[2]
            if rd != 0 and regs[rd] != want:
                return f"x{rd} = {regs[rd]:#x}, documented {want:#x}"
        if {a: v for a, v in mem.b.items() if v} != {a: v for a, v in exp_mem.items() if v}:
            return "memory effect differs from the documented one"
    return None


# ---- layout space ------------------------------------------------------------------------------------------------
def gen_layouts(kinds, L, max_refs=None):
    for seq in itertools.product(kinds, repeat=L):
        refs = [i for i, k in enumerate(seq) if k in REF_KINDS]
        if max_refs is not None and len(refs) > max_refs:
            continue
        for labs in itertools.product(PLACEMENTS, repeat=L):
            for endlab in (False, True):
                names = [f"L{i}" for i, l in enumerate(labs) if l] + (["Lend"] if endlab else [])
                if refs and not names:
                    continue
                for tgt in itertools.product(names, repeat=len(refs)):
                    for off in ((0, 4, 8) if refs else (0,)):
                        yield seq, labs, endlab, dict(zip(refs, tgt)), off


# Label names: the default scheme L0, L1, ... and a scheme of names that are also mnemonics (labels share no name space with
# mnemonics in the documented grammar: "Labels are added by appending a colon to a label name")
MNEMONIC_NAMES = ["mul", "nop", "ecall", "li", "ebreak", "add", "lw"]
_SCHEME = {"names": None}


def lname(name):
    if _SCHEME["names"] is None:
        return name
    if name == "Lend":
        return "jal"
    return _SCHEME["names"][int(name[1:]) % len(_SCHEME["names"])]


def item_text(k, i, tg, off, pc):
    if k == "b":
        return f"beq x1, x2, {lname(tg[i])}" + (f"+0x{off:x}" if off else "")
    if k == "j":
        return f"jal x1, {lname(tg[i])}" + (f"+0x{off:X}" if off else "")
    if k == "jabs":
        return "jal x3, 16"
    if k == "bnum":
        return "bne x4, x5, -8"
    return CLASSES[k][0]


def render(case, framing):
    seq, labs, endlab, tg, off = case
    lines = []
    for i, k in enumerate(seq):
        t = item_text(k, i, tg, off, 0)
        if labs[i] == "alone":
            lines.append(f"{lname(f'L{i}')}:")
            lines.append("    " + t)
        elif labs[i] == "inline":
            lines.append(f"{lname(f'L{i}')}: {t}")
        else:
            lines.append(t)
    if endlab:
        lines.append(f"{lname('Lend')}:")
    body = "\n".join(lines)
    needs = any(k in NEEDS_DATA for k in seq)
    if framing == "none":
        return None if needs else body + "\n"
    if framing == "text":
        return None if needs else ".text\n" + body + "\n"
    if framing == "data-first":
        return ".data\n" + DATATXT + "\n.text\n" + body + "\n"
    return body + "\n.data\n" + DATATXT + "\n"


def expected(case):
    """List of (kind, payload) per emitted slot group plus label addresses, computed from the abstract program."""
    seq, labs, endlab, tg, off = case
    size = {}
    for k in seq:
        if k in CLASSES:
            size[k] = len(isolated(k)) if CLASSES[k][1] == "pseudo" else len(CLASSES[k][2])
        else:
            size[k] = 1
    pc = 0
    lab = {}
    for i, k in enumerate(seq):
        if labs[i]:
            lab[f"L{i}"] = pc
        pc += 4 * size[k]
    lab["Lend"] = pc
    out = []
    pc = 0
    for i, k in enumerate(seq):
        if k == "b":
            out.append(("beq", None, 1, 2, lab[tg[i]] + off - pc))
        elif k == "j":
            out.append(("jal", 1, None, None, lab[tg[i]] + off - pc))
        elif k == "jabs":
            out.append(("jal", 3, None, None, 16 - pc))
        elif k == "bnum":
            out.append(("bne", None, 4, 5, -8))
        elif CLASSES[k][1] == "real":
            out += CLASSES[k][2]
        else:
            out += isolated(k)
        pc += 4 * size[k]
    return out


def check_layout(case, framing):
    text = render(case, framing)
    if text is None:
        return None, None
    try:
        a = asm.assemble(text)
    except CaseTimeout:
        return text, "load_program did not terminate within 10 s"
    except Exception as e:  # noqa
        return text, f"load_program raised {type(e).__name__}: {e!r}"
    exp = expected(case)
    if a.addrs != list(range(0, 4 * len(a.addrs), 4)):
        return text, f"instructions are not at consecutive 4-byte addresses from 0: {a.addrs[:8]}"
    if a.fields != exp:
        k = next((i for i, (x, y) in enumerate(zip(a.fields, exp)) if x != y), min(len(a.fields), len(exp)))
        return text, f"instruction {k}: assembled {a.fields[k] if k < len(a.fields) else None}, expected {exp[k] if k < len(exp) else None} ({len(a.fields)} vs {len(exp)} instructions)"
    return text, None


def features(case):
    seq, labs, endlab, tg, off = case
    f = {}
    f["inline_on_expanding"] = any(l == "inline" and k in CLASSES and CLASSES[k][1] == "pseudo" and len(isolated(k)) > 1 for k, l in zip(seq, labs))
    if _SCHEME["names"] is not None:
        f["standalone_label_named_like_operandless_instruction"] = any(l == "alone" and lname(f"L{i}") in ("nop", "ecall", "ebreak") for i, l in enumerate(labs))
    return f


def layout_shard(shard):
    kinds, L, first, max_refs, framings, part, parts = shard[:7]
    _SCHEME["names"] = shard[7] if len(shard) > 7 else None
    p = Partial()
    n = 0
    for case in gen_layouts(kinds, L, max_refs):
        if case[0][0] != kinds[first]:
            continue
        n += 1
        if n % parts != part:
            continue
        for framing in framings:
            text, d = check_layout(case, framing)
            if text is None:
                continue
            p.evaluations += 1
            seq, labs, endlab, tg, off = case
            if tg or any(labs):
                p.nontrivial += 1
            if tg:
                tpos = [None if t == "Lend" else int(t[1:]) for t in tg.values()]
                for (i, _t), tp in zip(tg.items(), tpos):
                    p.counters["ref-end" if tp is None else ("ref-forward" if tp > i else ("ref-self" if tp == i else "ref-backward"))] += 1
            ft = features(case)
            if ft["inline_on_expanding"]:
                p.counters["inline-label-on-expanding-pseudo"] += 1
            if d:
                if _SCHEME["names"] is not None:
                    p.counters["label-named-like-a-mnemonic"] += 0
                p.violation(dict(oracle="layout", field="instructions", **ft), dict(kind="layout", case=[list(seq), list(labs), endlab, {str(k): v for k, v in tg.items()}, off], framing=framing, names=_SCHEME["names"]),
                            f"{text!r}: {d}", size=(L, len(text)))
    if first == 0 and part == 0:
        c = (("ldn", "j"), ("inline", None), True, {1: "Lend"}, 8) if L >= 2 else (("j",), ("alone",), False, {0: "L0"}, 0)
        p.sample(dict(kind="layout", text=render(c, "data-first")))
    return p


def byname_shard(shard):
    """Every sequence of by-name pseudo-instructions (indexed and un-indexed, la / load / store) of a given length:
    the group of each must not depend on what was referenced before it."""
    L, first = shard
    p = Partial()
    for tail in itertools.product(BYNAME, repeat=L - 1):
        seq = (BYNAME[first],) + tail
        case = (seq, (None,) * L, False, {}, 0)
        for framing in ("data-first", "data-last"):
            text, d = check_layout(case, framing)
            p.evaluations += 1
            p.nontrivial += 1
            p.counters["by-name-sequence"] += 1
            if d:
                p.violation(dict(oracle="layout", field="instructions", **features(case)), dict(kind="layout", case=[list(seq), [None] * L, False, {}, 0], framing=framing),
                            f"{text!r}: {d}", size=(L, len(text)))
    return p


# ---- line space: every mnemonic in every documented operand form ---------------------------------------------
IMM12 = [0, 1, -1, 2047, -2048, 0x7FF, -0x800, 5, 0b101, -0b11]


def line_cases():
    out = []
    R = ["add", "sub", "sll", "slt", "sltu", "xor", "srl", "sra", "or", "and", "mul", "mulh", "mulhu", "mulhsu", "div", "divu", "rem", "remu"]
    for mn in R:
        out.append((f"{mn} x5, x6, x7", (mn, 5, 6, 7, None)))
        out.append((f"{mn} x0, x31, x0", (mn, 0, 31, 0, None)))
    for mn in ["addi", "slti", "sltiu", "xori", "ori", "andi"]:
        for imm in IMM12:
            out.append((f"{mn} x1, x2, {imm}", (mn, 1, 2, None, imm)))
    for mn in ["slli", "srli", "srai"]:
        for sh in (0, 1, 5, 31, 0x1F, 0b11):
            out.append((f"{mn} x3, x4, {sh}", (mn, 3, 4, None, sh)))
    for mn in ["lb", "lh", "lw", "lbu", "lhu"]:
        for imm in IMM12[:7]:
            out.append((f"{mn} x8, {imm}(x9)", (mn, 8, 9, None, imm)))
            out.append((f"{mn} x8, x9, {imm}", (mn, 8, 9, None, imm)))
    for mn in ["sb", "sh", "sw"]:
        for imm in IMM12[:7]:
            out.append((f"{mn} x8, {imm}(x9)", (mn, None, 9, 8, imm)))
            out.append((f"{mn} x8, x9, {imm}", (mn, None, 9, 8, imm)))
    for imm in IMM12[:7]:
        out.append((f"jalr x1, x2, {imm}", ("jalr", 1, 2, None, imm)))
        out.append((f"jalr x1, {imm}(x2)", ("jalr", 1, 2, None, imm)))
    for mn in ["beq", "bne", "blt", "bge", "bltu", "bgeu"]:
        for imm in (0, 4, -4, 8, 4094, -4096, 0x10, -0x10, 2):
            out.append((f"{mn} x10, x11, {imm}", (mn, None, 10, 11, imm)))
    for mn in ["lui", "auipc"]:
        for imm in (0, 1, 0x7FFFF, 0x80000, 0xFFFFF, -1, -0x80000, 0b1010, 74565):
            out.append((f"{mn} x12, {imm}", (mn, 12, None, None, rv32.sx(imm, 20))))
    return out


def line_shard(shard):
    part, parts = shard
    p = Partial()
    cases = line_cases()
    # three lines per text so that the pc-relative forms sit at addresses 0, 4 and 8
    for i in range(part, len(cases), parts):
        text, exp = cases[i]
        for at in (0, 1, 2):
            src = "nop\n" * at + text + "\n"
            p.evaluations += 1
            p.nontrivial += 1
            try:
                a = asm.assemble(src)
                got = a.fields[at] if len(a.fields) == at + 1 else None
                d = None if got == exp else f"assembled {a.fields}, expected {exp} at index {at}"
            except Exception as e:  # noqa
                d = f"load_program raised {type(e).__name__}: {e!r}"
            if d:
                p.violation(dict(oracle="line", field="operands", mnemonic=exp[0]), dict(kind="line", text=src, exp=list(exp), at=at), f"{src!r}: {d}", size=(1, i, at))
    # jal: absolute number and label forms at several addresses
    for at in (0, 1, 5):
        for target in (0, 4, 8, 16, 400, 0x10):
            src = "nop\n" * at + f"jal x1, {target}\n"
            p.evaluations += 1
            p.nontrivial += 1
            try:
                a = asm.assemble(src)
                exp = ("jal", 1, None, None, target - 4 * at)
                d = None if a.fields[at] == exp and a.ins[at].abs_addr == target else f"assembled {a.fields[at]} abs_addr={a.ins[at].abs_addr}, expected {exp}"
            except Exception as e:  # noqa
                d = f"load_program raised {type(e).__name__}: {e!r}"
            if d and part == 0:
                p.violation(dict(oracle="line", field="operands", mnemonic="jal"), dict(kind="line", text=src, exp=list(exp), at=at), f"{src!r}: {d}", size=(1, at, target))
    return p


# ---- spelling deviations (DEV) ---------------------------------------------------------------------------------
ABI = {"zero": 0, "ra": 1, "sp": 2, "gp": 3, "tp": 4, "t0": 5, "t1": 6, "t2": 7, "s0": 8, "fp": 8, "s1": 9, "a0": 10, "a1": 11, "a2": 12, "a3": 13,
       "a4": 14, "a5": 15, "a6": 16, "a7": 17, "s2": 18, "s3": 19, "s4": 20, "s5": 21, "s6": 22, "s7": 23, "s8": 24, "s9": 25, "s10": 26, "s11": 27,
       "t3": 28, "t4": 29, "t5": 30, "t6": 31}
SPELL_BASE = [
    "add {a}, {b}, {c}", "addi {a}, {b}, 12", "lw {a}, 8({b})", "lw {a}, {b}, 8", "sw {a}, -4({b})", "sh {a}, {b}, 6", "beq {a}, {b}, 8", "jalr {a}, {b}, 4",
    "jalr {a}, 4({b})", "lui {a}, 74565", "jal {a}, 12", "mv {a}, {b}", "li {a}, 100", "li {a}, 0x12345", "mul {a}, {b}, {c}", "slli {a}, {b}, 3",
    "la {a}, v[1]", "lh {a}, h[1]", "sb {a}, w[1], {b}",
]


def spelling_shard(shard):
    part, parts = shard
    p = Partial()
    k = 0
    frame = lambda body: ".data\n" + DATATXT + "\n.text\n" + body + "\n"  # noqa

    def same(base_text, var_text, what):
        nonlocal k
        k += 1
        if k % parts != part:
            return
        p.evaluations += 1
        p.nontrivial += 1
        try:
            b = asm.assemble(base_text)
        except Exception as e:  # noqa
            raise InternalError(f"base text of a spelling deviation does not assemble: {base_text!r}: {e!r}")
        try:
            v = asm.assemble(var_text)
            d = None if v.fields == b.fields and v.addrs == b.addrs else f"assembles to {v.fields}, the canonical spelling to {b.fields}"
        except Exception as e:  # noqa
            d = f"load_program raised {type(e).__name__}: {e!r}"
        if d:
            p.violation(dict(oracle="spelling", field=what), dict(kind="spelling", base=base_text, variant=var_text, what=what), f"{what}: {var_text!r}: {d}", size=(len(var_text),))

    # ABI name <-> xN for all 33 names in every operand position
    for tmpl in SPELL_BASE:
        npos = sum(1 for x in ("{a}", "{b}", "{c}") if x in tmpl)
        for name, num in ABI.items():
            for pos in range(npos):
                regs = [f"x{3 + i}" for i in range(3)]
                regs_v = list(regs)
                regs[pos] = f"x{num}"
                regs_v[pos] = name
                if "la " in tmpl or "lh " in tmpl:  # load-by-name with rd = x0 is a known defect (D6): not a spelling matter
                    if num == 0 and pos == 0:
                        continue
                base = tmpl.format(a=regs[0], b=regs[1], c=regs[2])
                var = tmpl.format(a=regs_v[0], b=regs_v[1], c=regs_v[2])
                same(frame(base), frame(var), "abi-name")
    # mnemonic case
    for tmpl in SPELL_BASE:
        base = tmpl.format(a="x3", b="x4", c="x5")
        mn, rest = base.split(" ", 1)
        for v in (mn.upper(), mn.capitalize(), mn[0] + mn[1:].upper()):
            same(frame(base), frame(v + " " + rest), "mnemonic-case")
    same("nop\necall\n", "NOP\nECALL\n", "mnemonic-case")
    same("nop\necall\n", "Nop\nEcall\n", "mnemonic-case")
    # number radix and sign
    for val in (0, 5, 12, 100, 2047, -1, -12, -2048):
        for mn_t in ("addi x3, x4, {n}", "lw x3, {n}(x4)", "sw x3, x4, {n}", "li x3, {n}", "jalr x1, x2, {n}"):
            base = mn_t.format(n=val)
            for lit in ((hex(val) if val >= 0 else "-" + hex(-val)), (bin(val) if val >= 0 else "-" + bin(-val)), ("0x" + format(abs(val), "X") if val >= 0 else "-0x" + format(-val, "X"))):
                same(base + "\n", mn_t.format(n=lit) + "\n", "number-radix")
    for val in (8, -8, 64):
        for lit in ((hex(val) if val >= 0 else "-" + hex(-val)), (bin(val) if val >= 0 else "-" + bin(-val))):
            same(f"nop\nnop\nbeq x1, x2, {val}\n", f"nop\nnop\nbeq x1, x2, {lit}\n", "number-radix")
    # whitespace, comments, blank lines, indentation
    prog = ["start: addi x1, x0, 1", "add x2, x1, x1", "lw x3, 4(x2)", "beq x1, x2, start", "jal x1, start+0x8", "li x5, 0x12345", "end:"]
    base = "\n".join(prog) + "\n"
    for i in range(len(prog) + 1):
        for ins_line in ("", "   ", "# comment", "\t# x: add x1, x1, x1", "  \t  ", '# 12" remain', "# it's", "#"):
            same(base, "\n".join(prog[:i] + [ins_line] + prog[i:]) + "\n", "blank-or-comment-line")
    for i in range(len(prog)):
        for f in (lambda s: "    " + s, lambda s: "\t" + s, lambda s: s + "   ", lambda s: s + " # trailing comment", lambda s: s + "\t#c",
                  lambda s: s + '  # 3.5" floppy', lambda s: s + " # it's", lambda s: s + ' # a "quoted" word', lambda s: s + " # x: .data # more", lambda s: s + " #",
                  lambda s: s + " # add x1, x2, x3", lambda s: s + " # ,;:()[]",
                  # characters at which str.splitlines() - but no editor - ends a line (genuine defect D9, repaired)
                  lambda s: s + " # form\x0cfeed", lambda s: s + " # vertical\x0btab x", lambda s: s + " # a\x1cb\x1dc\x1ed", lambda s: s + " # next\x85line",
                  lambda s: s + " # line\u2028separator", lambda s: s + " # paragraph\u2029separator add x1",
                  lambda s: s.replace(", ", ","), lambda s: s.replace(", ", " , "), lambda s: s.replace(", ", ",\t"), lambda s: s.replace("(", " ( ").replace(")", " ) "),
                  lambda s: s.replace(": ", ":"), lambda s: s.replace(": ", " :  "), lambda s: s.replace(" ", "  ")):
            v = list(prog)
            v[i] = f(prog[i])
            if v[i] != prog[i]:
                same(base, "\n".join(v) + "\n", "whitespace")
    same(base, base.replace("\n", "\r\n"), "line-endings")
    same(base, base.rstrip("\n"), "line-endings")
    return p


# ---- pseudo-instruction semantics -----------------------------------------------------------------------------
def pseudo_cases():
    """(source line, class-like spec) over registers incl. x0 and several constants / variables / indices."""
    out = []
    for rd in (0, 1, 5, 10, 31):
        out.append((f"nop", ("nop",)))
        for rs in (0, 5, rd, 17):
            out.append((f"mv x{rd}, x{rs}", ("mv", rd, rs)))
        for c in (0, 1, -1, 2047, -2048, 2048, -2049, 0x7FF, 0x800, 0xFFF, 0x1000, 0x12345, 0x7FFFF7FF, 0x7FFFF800, 0x80000000, 0xFFFFFFFF, -0x80000000, 0xFFFFF800, 0xFFFFF7FF):
            out.append((f"li x{rd}, {c}", ("li", rd, c)))
        for var, (addr, esz) in VARS.items():
            for idx in (None, 0, 1, 2):
                ref = var + ("" if idx is None else f"[{idx}]")
                a = addr + esz * (idx or 0)
                out.append((f"la x{rd}, {ref}", ("la", rd, a)))
                for mn in ("lb", "lh", "lw", "lbu", "lhu"):
                    n = rv32.LD[mn][0]
                    if a % n == 0 and rd not in (5,):
                        out.append((f"{mn} x{rd}, {ref}", ("load", mn, rd, a)))
                for mn in ("sb", "sh", "sw"):
                    n = rv32.ST[mn]
                    for ra in (6, 31):
                        if a % n == 0 and ra != rd:
                            out.append((f"{mn} x{rd}, {ref}, x{ra}", ("store", mn, rd, ra, a)))
    seen = set()
    uniq = []
    for c in out:
        if c[0] not in seen:
            seen.add(c[0])
            uniq.append(c)
    return uniq


def symptom(d):
    return "group-faults" if d.startswith("group faults") else ("raises" if d.startswith("load_program raised") else "wrong-effect")


def pseudo_shard(shard):
    part, parts = shard
    p = Partial()
    cases = pseudo_cases()
    for i in range(part, len(cases), parts):
        line, spec = cases[i]
        p.evaluations += 1
        p.nontrivial += 1
        sig_extra = dict(pseudo=spec[0], rd_is_x0=(spec[0] == "load" and spec[2] == 0))
        try:
            alone = asm.assemble(".data\n" + DATATXT + "\n.text\n" + line + "\n")
            # the same pseudo-instruction between other instructions and behind a label: identical group
            ctx_txt = ".data\n" + DATATXT + "\n.text\nadd x1, x2, x3\nhere:\n" + line + "\nbeq x0, x0, here\n"
            inctx = asm.assemble(ctx_txt)
            g = alone.fields
            d = None
            if inctx.fields[1:1 + len(g)] != g or len(inctx.fields) != len(g) + 2:
                d = f"expands to {inctx.fields[1:-1]} between other instructions but to {g} on its own"
            elif inctx.fields[-1] != ("beq", None, 0, 0, -4 * len(g)):
                d = f"label before the pseudo-instruction resolves to displacement {inctx.fields[-1][4]}, expected {-4 * len(g)}"
            else:
                CLASSES["_tmp"] = (line, "pseudo", spec)
                d = effect_ok("_tmp", g)
        except CaseTimeout:
            d = "load_program did not terminate"
        except Exception as e:  # noqa
            d = f"load_program raised {type(e).__name__}: {e!r}"
        if d:
            p.violation(dict(oracle="pseudo-effect", field="effect", symptom=symptom(d), **sig_extra), dict(kind="pseudo", line=line, spec=list(spec)), f"{line!r}: {d}", size=(len(line), i))
    if part == 0:
        p.sample(dict(kind="pseudo", line=cases[7][0]))
    return p


def full_memory_case(short, variant):
    """A well-formed program that fills the instruction memory up to `short` instructions below its capacity: li (2
    instructions), nops, and a tail with labels, a backward branch, a backward jump and a label at the very end."""
    from architecture_simulator.settings.settings import Settings
    st = Settings().get()
    cap = (st["instruction_memory_max_bytes"] - st["instruction_memory_min_bytes"]) // 4
    n = cap - short
    nop = ("nop", "NOP", "addi x0, x0, 0")[variant]
    lines = ["first: li x5, 0x12345"] + [nop] * (n - 6) + ["mid: addi x1, x1, 1", "bne x1, x0, mid", "jal x0, mid", "last: beq x0, x0, last"] + (["end:"] if variant else [])
    # conditional branches to labels at both ends of their reach: -4096 (1024 instructions back) and +4092 (1023 forward)
    # (line index = instruction index - 1 behind the two-instruction li group)
    extremes = {}
    if n > 2400:
        lines[10 - 1] = "far: addi x2, x2, 1"
        lines[10 + 1024 - 1] = "beq x0, x0, far"
        lines[1100 - 1] = "bne x0, x0, fwd"
        lines[1100 + 1023 - 1] = "fwd: addi x3, x3, 1"
        extremes = {4 * 10: ("addi", 2, 2, None, 1), 4 * 1034: ("beq", None, 0, 0, -4096), 4 * 1100: ("bne", None, 0, 0, 4092), 4 * 2123: ("addi", 3, 3, None, 1)}
    text = "\n".join(lines) + "\n"
    try:
        a = asm.assemble(text, timeout=120)
    except Exception as e:  # noqa
        return n, f"load_program raised {type(e).__name__}: {e!r}"
    if a.addrs != list(range(0, 4 * n, 4)):
        return n, f"{len(a.addrs)} instructions placed (last address {a.addrs[-1] if a.addrs else None}), the text denotes {n} at 0..{4 * n - 4}"
    li = asm.assemble("li x5, 0x12345\n").fields  # the group is whatever li assembles to on its own (same wherever it occurs)
    if len(li) != 2 or [tuple(f) for f in a.fields[:2]] != [tuple(f) for f in li]:
        return n, f"the li group at the start is {a.fields[:2]}, on its own it assembles to {li}"
    want = {8: ("addi", 0, 0, None, 0), 4 * (n - 5): ("addi", 0, 0, None, 0),
            4 * (n - 4): ("addi", 1, 1, None, 1), 4 * (n - 3): ("bne", None, 1, 0, -4), 4 * (n - 2): ("jal", 0, None, None, -8), 4 * (n - 1): ("beq", None, 0, 0, 0)}
    want.update(extremes)
    for addr, w in want.items():
        got = a.fields[addr // 4]
        if tuple(got) != w:
            return n, f"instruction at {addr} is {tuple(got)}, the text denotes {w}"
    return n, None


PAGE_DATA = ".data\npad: .zero 1020\narr: .word 11, 12, 13, 14, 15, 16\nbig: .zero 2048\ntail: .half 21, 22, 23\n"
PAGE_BASE = DATA + 4 * 1020          # arr = 0x4FF0: arr[4] is the first word of the next 4 KiB page
PAGE_BIG = PAGE_BASE + 24
PAGE_TAIL = PAGE_BIG + 4 * 2048


def page_cases():
    """By-name pseudo-instructions whose element lies on another 4 KiB page than the start of its array (the upper part of
    the address must come from the element, not from the array): (line, register, expected value after running)."""
    out = []
    for i in range(6):
        out.append((f"la x6, arr[{i}]", 6, PAGE_BASE + 4 * i))
        out.append((f"lw x7, arr[{i}]", 7, 11 + i))
    for i in (0, 1, 510, 511, 512, 1023, 1024, 1500, 2047):
        out.append((f"la x8, big[{i}]", 8, PAGE_BIG + 4 * i))
    for i in range(3):
        out.append((f"la x9, tail[{i}]", 9, PAGE_TAIL + 2 * i))
        out.append((f"lhu x10, tail[{i}]", 10, 21 + i))
    for i in (3, 4, 5):
        out.append((f"sw x11, arr[{i}], x12", 12, PAGE_BASE + 4 * i))
    # every declaration kind directly behind a variable that ends off a word boundary (each variable starts on a 4-byte boundary)
    for line, reg, want in (("la x6, b", 6, DATA), ("la x6, z", 6, DATA + 4), ("la x6, z[1]", 6, DATA + 8), ("lw x7, z[1]", 7, 0), ("sw x11, z[1], x12", 12, DATA + 8),
                            ("sw x11, z, x12", 12, DATA + 4), ("la x6, h", 6, DATA + 12), ("lh x7, h", 7, 5), ("la x6, z2", 6, DATA + 16), ("sw x11, z2, x12", 12, DATA + 16),
                            ("la x6, s", 6, DATA + 20), ("lbu x7, s[1]", 7, 98), ("la x6, z3", 6, DATA + 24), ("sw x11, z3[0], x12", 12, DATA + 24), ("la x6, w", 6, DATA + 28),
                            ("lw x7, w", 7, 9), ("la x6, e", 6, DATA + 32), ("la x6, z4", 6, DATA + 36), ("la x6, q", 6, DATA + 40), ("lb x7, q", 7, 7)):
        out.append((line, reg, want, MIXED_DATA))
    return out


MIXED_DATA = '.data\nb: .byte 1, 2, 3\nz: .zero 2\nh: .half 5\nz2: .zero 1\ns: .string "ab"\nz3: .zero 1\nw: .word 9\ne: .string ""\nz4: .zero 1\nq: .byte 7\n'


def page_case(k):
    line, reg, want = page_cases()[k][:3]
    text = (page_cases()[k][3] if len(page_cases()[k]) > 3 else PAGE_DATA) + ".text\naddi x11, x0, 77\n" + line + "\n"
    try:
        a = asm.assemble(text)
        n = 0
        while not a.sim.is_done() and n < 20:
            a.sim.step()
            n += 1
    except Exception as e:  # noqa
        return f"{line!r} behind the data segment {text.split('.text')[0][:40]!r}...: {type(e).__name__}: {getattr(e, 'instruction_repr', e)!r}"
    got = int(a.sim.state.register_file.registers[reg])
    if got != want:
        return f"{line!r}: x{reg} = {got:#x} after running, the documented effect gives {want:#x} (group {a.fields[1:]})"
    if line.startswith("sw") and int(a.sim.state.memory.read_word(want)) != 77:  # noqa
        return f"{line!r}: the word at {want:#x} is {int(a.sim.state.memory.read_word(want))}, expected 77"
    return None


def page_shard(shard):
    part, parts = shard
    p = Partial()
    for k in range(len(page_cases())):
        if k % parts != part:
            continue
        p.evaluations += 1
        p.nontrivial += 1
        p.counters["by-name-element-on-another-page"] += 1
        d = page_case(k)
        if d:
            p.violation(dict(oracle="pseudo-effect-far-element", field="effect"), dict(kind="page", k=k), d, size=(k,))
    return p


def full_memory_shard(shard):
    short, variant = shard
    p = Partial()
    n, d = full_memory_case(short, variant)
    p.evaluations += 1
    p.nontrivial += 1
    p.counters["program-filling-the-instruction-memory" if short == 0 else "program-nearly-filling-the-instruction-memory"] += 1
    if d:
        p.violation(dict(oracle="full-instruction-memory", field="layout"), dict(kind="full-memory", short=short, variant=variant),
                    f"program of {n} instructions (capacity minus {short}): {d}", size=(short, variant))
    return p


FRESH_TEXTS = [
    "NOP\n",
    "nop\nNOP\nl: NOP\nbeq x0, x0, l\n",
    "l: NOP\nNOP\nbeq x0, x0, l\nx: nop\n",
    "start: addi x1, x0, 1\nloop:\nadd x2, x1, x1\nbne x2, x0, loop\njal x0, start\nend:\n",
    ".data\nv: .word 1, 2\n.text\nla x1, v\nlw x2, v[1]\nsw x2, v, x3\nli x4, 0x12345\nmv x5, x4\n",
    "ECALL\nl: ecall\nbeq x1, x2, l\n",
]
FRESH_OTHER = "loop: add x1, x1, x1\nstart: nop\nl: NOP\n.data\nv: .byte 1\nx: .word 2\n"


SEQ_TEXTS = FRESH_TEXTS + [FRESH_OTHER, "", ".data\nq: .word 5\n", "li x1, 0x12345\nla x2, q\n.data\nq: .half 1\n", "a: nop\n" * 1 + "nop\n" * 9 + "jal x0, a\n"]


def seq_case(xi, yi, via):
    """Text Y assembled into a state that already holds program X (via load_program, or by handing the state to the assembler a
    second time): the instruction memory holds exactly what Y denotes — the listing of a fresh state that only assembled Y."""
    from architecture_simulator.isa.riscv.riscv_parser import RiscvParser
    from architecture_simulator.simulation.riscv_simulation import RiscvSimulation

    def put(sim, text):
        if via == "load_program":
            sim.load_program(text)
        else:
            RiscvParser().parse(program=text, state=sim.state)

    def listing(sim):
        im = sim.state.instruction_memory
        return [(a, t, tuple(asm.fields_full(im.read_instruction(a)))) for a, t in im.get_representation()]

    fresh = RiscvSimulation()
    put(fresh, SEQ_TEXTS[yi])
    used = RiscvSimulation()
    put(used, SEQ_TEXTS[xi])
    put(used, SEQ_TEXTS[yi])
    a, b = listing(used), listing(fresh)
    if a != b:
        k = next((i for i in range(min(len(a), len(b))) if a[i] != b[i]), min(len(a), len(b)))
        return (f"assembled behind {SEQ_TEXTS[xi]!r} ({via}), {SEQ_TEXTS[yi]!r} gives {len(a)} instructions, entry {k}: {a[k] if k < len(a) else None}; "
                f"on a fresh state {len(b)} instructions, entry {k}: {b[k] if k < len(b) else None}")
    if used.has_instructions() != fresh.has_instructions():
        return f"has_instructions() is {used.has_instructions()} behind {SEQ_TEXTS[xi]!r}, {fresh.has_instructions()} on a fresh state"
    return None


def seq_shard(shard):
    xi = shard
    p = Partial()
    for yi in range(len(SEQ_TEXTS)):
        for via in ("load_program", "parser"):
            p.evaluations += 1
            p.nontrivial += 1
            p.counters["assembled-behind-another-program"] += 1
            try:
                d = seq_case(xi, yi, via)
            except Exception as e:  # noqa
                d = f"{SEQ_TEXTS[xi]!r} then {SEQ_TEXTS[yi]!r} ({via}): {type(e).__name__}: {e}"
            if d:
                p.violation(dict(oracle="assembled-behind-another-program", field="instruction-memory", via=via), dict(kind="seq", xi=xi, yi=yi, via=via), d, size=(len(SEQ_TEXTS[yi]), xi, yi))
    return p


def fresh_items():
    """What the process did before must not change what a text assembles to (each scenario in a fresh interpreter)."""
    out = []
    for t in FRESH_TEXTS:
        for prelude in ([["toy_load", t]], [["toy_load", "NOP\nnop\nl: NOP\nINC\nx: nop\nstart:\nloop:\nend:\n"]], [["rv_load", FRESH_OTHER]],
                        [["rv_load", "l: addi x1, x0, 1\nbeq x0, x0, nowhere\n"]], [["rv_new", "five_stage_pipeline", True], ["toy_run", "INC\nNOP\n"]]):
            out.append(("assembler-history", prelude, ["rv_image", t]))
    return out


def replay(case):
    if case["kind"] == "fresh":
        return freshcmp.replay(case)
    if case["kind"] == "page":
        d = page_case(case["k"])
        return [(dict(oracle="pseudo-effect-far-element", field="effect"), d)] if d else []
    if case["kind"] == "full-memory":
        _n, d = full_memory_case(case["short"], case["variant"])
        return [(dict(oracle="full-instruction-memory", field="layout"), d)] if d else []
    k = case["kind"]
    if k == "seq":
        d = seq_case(case["xi"], case["yi"], case["via"])
        return [(dict(oracle="assembled-behind-another-program", field="instruction-memory", via=case["via"]), d)] if d else []
    if k == "layout":
        seq, labs, endlab, tg, off = case["case"]
        c = (tuple(seq), tuple(labs), endlab, {int(a): b for a, b in tg.items()}, off)
        _SCHEME["names"] = case.get("names")
        text, d = check_layout(c, case["framing"])
        return [(dict(oracle="layout", field="instructions", **features(c)), f"{text!r}: {d}")] if d else []
    if k == "line":
        try:
            a = asm.assemble(case["text"])
            ok = a.fields[case["at"]] == tuple(case["exp"])
            d = None if ok else f"assembled {a.fields}"
        except Exception as e:  # noqa
            d = repr(e)
        return [(dict(oracle="line", field="operands"), d)] if d else []
    if k == "spelling":
        try:
            b = asm.assemble(case["base"])
            v = asm.assemble(case["variant"])
            d = None if v.fields == b.fields else "differs"
        except Exception as e:  # noqa
            d = repr(e)
        return [(dict(oracle="spelling", field=case["what"]), d)] if d else []
    spec = tuple(case["spec"])
    CLASSES["_tmp"] = (case["line"], "pseudo", spec)
    try:
        alone = asm.assemble(".data\n" + DATATXT + "\n.text\n" + case["line"] + "\n")
        d = effect_ok("_tmp", alone.fields)
    except Exception as e:  # noqa
        d = repr(e)
    return [(dict(oracle="pseudo-effect", field="effect", symptom=symptom(d), pseudo=spec[0], rd_is_x0=(spec[0] == "load" and spec[2] == 0)), d)] if d else []


def run(ctx):
    thorough = not ctx.quick
    ctx.rule = ("(a) layout space: every sequence of items up to a length bound over expansion classes {real, memory, ecall, nop, mv, small li, large li, la, "
                "load-by-name, store-by-name, branch-to-label, jal-to-label, jal absolute, numeric branch} x label placement {none, stand-alone, in-line} x "
                "optional end label x every choice of referenced label (forward, backward, self, end) x +0x offset {none, 4, 8} x segment framing {none, .text, "
                ".data first, .data last}; expected list computed from the abstract program: real instructions with exact operands, pseudo groups identical "
                "to the group assembled on its own, displacements from the label addresses after expansion. (a') every sequence of 2-3 (4) la / load / store by-name pseudo-instructions, "
                "indexed and un-indexed, so that no group depends on what was referenced before it. (b) every mnemonic in every documented operand "
                "form with boundary immediates at three addresses. (c) spelling deviations (bound 1): ABI <-> xN for all 33 names x operand positions, "
                "mnemonic case, radix/sign of literals, whitespace, comments, blank lines, line endings: loaded list unchanged. (d) pseudo-instruction groups "
                "executed on the golden model from arbitrary register contents: documented effect and no other register touched. Non-trivial = text with a "
                "label or reference / any (b)-(d) case.")
    ctx.assumptions += ["'well-formed' = generated by this grammar: encodable immediates, label names that are not register names (names that are also mnemonics are explored separately), no '#' inside strings",
                        "load-by-name may overwrite t0 (help page) in addition to rd"]
    ctx.require("ref-forward", "ref-backward", "ref-self", "ref-end", "inline-label-on-expanding-pseudo", "by-name-sequence")
    n_all = len(ALL_KINDS)
    plans = [("all-classes", ALL_KINDS, 1, None), ("all-classes", ALL_KINDS, 2, None), ("size-classes", SIZE_CLASSES, 3, 1 if ctx.quick else None)]
    if thorough:
        plans += [("all-classes", ALL_KINDS, 3, 1), ("size-classes", SIZE_CLASSES, 4, 2)]
    for name, kinds, L, max_refs in plans:
        t0 = time.time()
        parts = 1 if L < 2 else (4 if L == 2 else (8 if L == 3 else 32))
        framings = FRAMINGS if L <= 2 else ((("data-first", "data-last")[ctx.seed % 2],) if ctx.quick else ("data-first", "data-last", "none"))
        shards = [(kinds, L, f, max_refs, framings, part, parts) for f in range(len(kinds)) for part in range(parts)]
        part = pmap(layout_shard, shards)
        ctx.space(f"layout-{name}-len{L}", part, t0, classes=len(kinds), length=L, framings=list(framings), max_referencing_items=max_refs)
    # the same layout space with label names that are also mnemonics (one framing)
    for L in (1, 2):
        t0 = time.time()
        parts = 1 if L == 1 else 4
        shards = [(ALL_KINDS, L, f, None, ("data-first",), part, parts, MNEMONIC_NAMES) for f in range(len(ALL_KINDS)) for part in range(parts)]
        part = pmap(layout_shard, shards)
        ctx.space(f"layout-mnemonic-label-names-len{L}", part, t0, classes=len(ALL_KINDS), length=L, label_names=MNEMONIC_NAMES)
    for L in (2, 3) if ctx.quick else (2, 3, 4):
        t0 = time.time()
        part = pmap(byname_shard, [(L, f) for f in range(len(BYNAME))])
        ctx.space(f"by-name-sequences-len{L}", part, t0, classes=len(BYNAME), length=L)
    t0 = time.time()
    part = pmap(line_shard, [(i, 16) for i in range(16)])
    ctx.space("line-forms", part, t0, lines=len(line_cases()))
    t0 = time.time()
    part = pmap(spelling_shard, [(i, 32) for i in range(32)])
    ctx.space("spelling-deviations", part, t0)
    t0 = time.time()
    part = pmap(page_shard, [(i, 16) for i in range(16)])
    ctx.space("by-name-elements-on-another-page", part, t0, cases=len(page_cases()))
    ctx.require("by-name-element-on-another-page")
    t0 = time.time()
    part = pmap(full_memory_shard, [(0, 0), (1, 1)] if ctx.quick else [(0, 0), (0, 1), (0, 2), (1, 1), (2, 2)])
    ctx.space("programs-filling-the-instruction-memory", part, t0, note="li + nops + labelled tail; capacity, capacity-1 (and -2) instructions after expansion")
    ctx.require("program-filling-the-instruction-memory")
    t0 = time.time()
    items = fresh_items()
    part = pmap(freshcmp.shard, [items[i::16] for i in range(16) if items[i::16]])
    ctx.space("assembler-history-fresh-interpreters", part, t0, texts=len(FRESH_TEXTS), preludes=5,
              note="each scenario runs in its own interpreter; compared with the same text assembled in a pristine interpreter")
    ctx.require("fresh-interpreter-differential")
    t0 = time.time()
    part = pmap(seq_shard, list(range(len(SEQ_TEXTS))))
    ctx.space("assembled-behind-another-program", part, t0, texts=len(SEQ_TEXTS), via=["load_program", "RiscvParser.parse on the same state"])
    ctx.require("assembled-behind-another-program")
    t0 = time.time()
    part = pmap(pseudo_shard, [(i, 32) for i in range(32)])
    ctx.space("pseudo-instruction-effects", part, t0, cases=len(pseudo_cases()))
