"""Lock-step comparison of the real five-stage pipeline with the reference pipeline machine, and the
control-state fixed point over the forward-only alphabet F (shared by C07 and C08)."""
from __future__ import annotations

import time

from vf.adapt import rv
from vf.engine.core import InternalError, Partial, chunks, digest, pmap
from vf.ref import rv32
from vf.ref.pipeline import PipeRef

BASE = rv32.MINADDR
M = rv32.M
STATE_CAP = 400000


def lockstep(prog, regs, words, maxcycles, hazard, want=("cycle", "retire", "final", "stalls"), style="plain"):
    """Run implementation and reference cycle by cycle. Returns (ref machine, list of (field, detail))."""
    sim = rv.make_sim(rv.FIVE, prog, regs, words, hazard=hazard, style=style)
    r, m = rv.ref_state(regs, words)
    ref = PipeRef({4 * i: ins for i, ins in enumerate(prog)}, r, m, hazard)
    pm = sim.state.performance_metrics
    bad = []
    n = 0
    err = None
    exc = None
    try:
        while n < maxcycles:
            d_impl = sim.is_done()
            d_ref = ref.finished()
            if d_impl or d_ref:
                break
            c0 = pm.cycles
            sim.step()
            n += 1
            ret_ref = ref.cycle()
            if ref.err is not None:
                bad.append(("fault", f"reference faults at {ref.err} in cycle {n}, simulator did not raise"))
                break
            if "cycle" in want and pm.cycles - c0 != 1:
                bad.append(("cycle-increment", f"cycle counter advanced by {pm.cycles - c0} in step {n}"))
                break
            if "retire" in want:
                ret = rv.retire_addr(sim)
                if ret != ret_ref:
                    bad.append(("retire-time", f"cycle {n}: simulator retires {ret}, documented schedule retires {ret_ref}"))
                    break
    except rv.InstructionExecutionException as e:
        err = e.address
        if not ref.finished():
            ref.cycle()
        if ref.err != err:
            bad.append(("fault", f"simulator faults at {err} in cycle {n + 1}, reference {'faults at ' + str(ref.err) if ref.err is not None else 'does not fault'}"))
    except Exception as e:  # noqa
        exc = f"{type(e).__name__}: {e}"
        bad.append(("exception", exc))
    if bad or exc:
        return ref, bad
    if err is None and n < maxcycles:
        # both must agree on termination
        if sim.is_done() != ref.finished():
            bad.append(("termination", f"after {n} cycles: simulator done={sim.is_done()}, reference done={ref.finished()}"))
            return ref, bad
    if "final" in want:
        st = sim.state
        rg = rv.regs_of(sim)
        if rg != ref.regs:
            d = [(i, hex(ref.regs[i]), hex(rg[i])) for i in range(32) if rg[i] != ref.regs[i]]
            bad.append(("reg", f"registers differ (index, reference, simulator): {d[:4]}"))
        mi = rv.mem_image(sim)
        if mi != ref.mem.image():
            bad.append(("mem", "data memory differs from the reference"))
        if st.output != ref.out:
            bad.append(("out", f"output reference {ref.out!r} simulator {st.output!r}"))
        if st.exit_code != ref.exit:
            bad.append(("exit", f"exit code reference {ref.exit!r} simulator {st.exit_code!r}"))
    if err is None:
        if "cycle" in want and pm.cycles != ref.cyc:
            bad.append(("cycles", f"total cycles reference {ref.cyc} simulator {pm.cycles}"))
        if "stalls" in want and pm.stalls != ref.stalls:
            bad.append(("stalls", f"stall counter reference {ref.stalls} simulator {pm.stalls}"))
    return ref, bad


def case_of(prog, regs, words, maxcycles, hazard):
    return dict(kind="pipe", prog=[list(i) for i in prog], regs={str(k): v for k, v in regs.items()},
                words={str(k): v for k, v in words.items()}, maxcycles=maxcycles, hazard=hazard, steps=maxcycles // 8)


def case_args(case):
    return ([tuple(i) for i in case["prog"]], {int(k): v for k, v in case["regs"].items()},
            {int(k): v for k, v in case["words"].items()}, case["maxcycles"], case["hazard"])


# ------------------------------------------------------------------------------------------------
# control-state fixed point
# ------------------------------------------------------------------------------------------------
def f_alphabet(seed, big):
    from vf.checks import alpha

    r1, r2, r3 = alpha.regs_for_seed(seed)
    F = [
        ("addi", r1, r1, 0, 0), ("add", r2, r1, 0, 0), ("add", r1, r2, 0, 0), ("lw", r1, r3, 0, 0), ("sw", 0, r3, r2, 0),
        ("beq", 0, r1, r1, 8), ("bne", 0, r1, r1, 8), ("beq", 0, r2, r2, 12), ("beq", 0, 0, 0, 4), ("jal", 0, 0, 0, 8),
        ("ecall", 0, 0, 0, 0), ("addi", 17, 0, 0, 93),
    ]
    if big:
        F += [("mul", 0, r1, r2, 0), ("sw", 0, r3, r1, 0), ("beq", 0, r1, r1, 16), ("bne", 0, r2, r2, 12)]
    regs = {r1: 7, r2: 7, r3: BASE, 17: 1, 10: 5}
    words = {BASE: 7}
    return F, regs, words


def ref_to_pause(prefix, regs, words, hazard, symidx, maxcycles=600):
    """Run the reference machine on the prefix until the fetch would leave it. Returns (key, cycles, retired)."""
    end = 4 * len(prefix)
    r, m = rv.ref_state(regs, words)
    ref = PipeRef({4 * i: ins for i, ins in enumerate(prefix)}, r, m, hazard)
    while ref.cyc < maxcycles:
        if ref.exit is not None:
            return ("exit",), ref.cyc, ref.retired, ref
        if ref.stall is None and ref.pc >= end:
            return ref.control_key(end, symidx), ref.cyc, ref.retired, ref
        ref.cycle()
        if ref.err is not None:
            raise InternalError(f"reference faulted on a prefix of the forward-only alphabet: {prefix}")
    raise InternalError(f"prefix did not pause within {maxcycles} cycles: {prefix}")


def impl_to_cycle(prefix, regs, words, hazard, cycles, symidx):
    """Run the real pipeline on the prefix for exactly `cycles` cycles. Returns (impl control key, retired, problem)."""
    from architecture_simulator.isa.riscv.instruction_types import EmptyInstruction

    sim = rv.make_sim(rv.FIVE, prefix, regs, words, hazard=hazard)
    pm = sim.state.performance_metrics
    ret = []
    end = 4 * len(prefix)
    for c in range(cycles):
        if sim.is_done():
            return None, ret, f"simulator done after {c} cycles, reference still running"
        try:
            sim.step()
        except Exception as e:  # noqa
            return None, ret, f"{type(e).__name__} in cycle {c + 1}: {e}"
        a = rv.retire_addr(sim)
        if a is not None:
            ret.append((a, pm.cycles))
    if sim.state.exit_code is not None:
        return ("exit",), ret, None
    try:
        p = sim.state.pipeline
        objidx = {id(rv.impl_of(s, 0)): i for s, i in symidx.items() if s[0] != "jal"}
        for i, s in enumerate(prefix):
            if s[0] == "jal":
                objidx[id(rv.impl_of(s, 4 * i))] = symidx[s]

        def k(pr):
            if isinstance(pr.instruction, EmptyInstruction):
                return ("E",)
            fs = pr.flush_signal
            return (type(pr).__name__, objidx[id(pr.instruction)], pr.address_of_instruction - end, pr.stall_signal is not None,
                    None if fs is None else fs.address - end, pr.is_of_stalled_value, getattr(pr, "exit_code", None))

        key = (tuple(k(x) for x in p.pipeline_registers[:4]), None if p.stalled is None else tuple(p.stalled),
               None if p.stalled_pipeline_regs is None else tuple(k(x) for x in p.stalled_pipeline_regs),
               sim.state.program_counter - end, int(sim.state.register_file.registers[17]))
    except (AttributeError, KeyError, TypeError):
        key = "impl-key-unavailable"
    return key, ret, None


def fp_expand(shard):
    """Expand a chunk of frontier prefixes by every symbol; one transition = one prefix executed on both sides."""
    (seed, big, hazard), prefixes = shard
    F, regs, words = f_alphabet(seed, big)
    symidx = {s: i for i, s in enumerate(F)}
    p = Partial()
    out = []
    for pre in prefixes:
        for si, sym in enumerate(F):
            q = [F[i] for i in pre] + [sym]
            key, cyc, ret, ref = ref_to_pause(q, regs, words, hazard, symidx)
            ikey, iret, problem = impl_to_cycle(q, regs, words, hazard, cyc, symidx)
            p.transitions += 1
            p.traces += 1
            p.evaluations += 1
            if ref.events:
                p.nontrivial += 1
                for e in ref.events:
                    p.counters["fp-" + e] += 1
            if ikey == "impl-key-unavailable":
                p.counters["fp-impl-key-unavailable"] += 1
            if problem is None and iret != ret:
                k = next((i for i, (a, b) in enumerate(zip(ret, iret)) if a != b), min(len(ret), len(iret)))
                problem = f"retirements (address, cycle) differ from position {k}: documented {ret[k:k + 3]} simulator {iret[k:k + 3]}"
            if problem is None and not hazard and ref.stalls != ref.drains:
                raise InternalError("reference inserted a decode stall with the interlock off")
            if problem is not None:
                p.violation(dict(oracle="fixed-point", field="retire-time", hazard=hazard),
                            case_of(q, regs, words, cyc + 8, hazard), f"[{rv.prog_text(q)}] hazard_detection={hazard}: {problem}",
                            size=(len(q), tuple(pre) + (si,)))
            out.append((tuple(pre) + (si,), digest((key, ikey)), key == ("exit",)))
    p.notes["out"] = out
    return p


def fixed_point(ctx, seed, big, hazard, maxdepth, name):
    """Level-synchronous BFS over program prefixes until no new (reference, implementation) control state appears."""
    from vf.engine.bfs import bfs

    t0 = time.time()
    F, regs, words = f_alphabet(seed, big)
    symidx = {s: i for i, s in enumerate(F)}
    key0, _c, _r, _ref = ref_to_pause([], regs, words, hazard, symidx)
    ik0, _ir, _p = impl_to_cycle([], regs, words, hazard, 0, symidx)
    res = bfs(fp_expand, (seed, big, hazard), [digest((key0, ik0))], [()], maxdepth, STATE_CAP, label=f"[{ctx.prop}] {name}")
    total = res.part
    total.sample(dict(kind="fixed-point-prefix", prog=[list(F[0]), list(F[3]), list(F[10])], hazard=hazard))
    if not res.closed:
        ctx.exhaustive = False
    unavailable = total.counters.get("fp-impl-key-unavailable", 0) > 0
    ctx.space(name, total, t0, alphabet=len(F), hazard_detection=hazard, closed=res.closed, depth=res.depth,
              stopped_early=res.stopped, implementation_key="unavailable (reference half only)" if unavailable else "used")
    return res.closed
