"""C11 — the instruction cache is transparent and its fetch accounting matches a reference (ENUM + BFS)."""
from __future__ import annotations

import itertools
import time

from architecture_simulator.settings.settings import Settings

from vf.adapt import rv, spy
from vf.checks import alpha
from vf.checks.c02 import templates
from vf.engine.canon import chash
from vf.engine.core import Partial, pmap
from vf.ref import rv32
from vf.ref.cache import RefCache

ID = "C11"
LEVEL = "exploration"
_last_fetches = []
GEOS = [(0, 0, 1), (1, 0, 1), (0, 1, 1), (0, 1, 2), (1, 1, 2), (0, 2, 1), (0, 0, 2), (2, 0, 1), (0, 0, 4)]


def icfgs(seed, thorough):
    out = []
    k = seed
    for g in GEOS:
        for policy in (("lru", "plru") if g[2] & (g[2] - 1) == 0 and g[2] > 1 else ("lru",)):
            pens = (0, 2) if thorough else ((0, 2)[k % 2],)
            for pen in pens:
                out.append((g[0], g[1], g[2], policy, pen))
            k += 1
    return out


def run_one(mode, prog, regs, words, icache, maxsteps, hazard=True, inspect=False):
    sim = rv.make_sim(mode, prog, regs, words, hazard=hazard, icache=icache, pre_reset=True)
    log = spy.spy_fetch(sim) if icache is not None else None

    def look(_n, s):
        # the cache table and the statistics are looked at after every step (what the web front end does)
        s.get_instruction_cache_entries()
        s.get_instruction_cache_stats()

    res = rv.run(sim, maxsteps, per_step=look if inspect else None)
    return sim, res, log


def check_icache(prog, regs, words, cfg, mode, maxsteps, inspect=False):
    """Returns (uncached result, ref cache, list of (field, detail))."""
    ib, bb, ways, policy, pen = cfg
    _s0, base, _l = run_one(mode, prog, regs, words, None, maxsteps)
    sim, got, log = run_one(mode, prog, regs, words, rv.cache_opts(ib, bb, ways, "wb", policy, pen), maxsteps, inspect=inspect)
    bad = []
    if got.exc is not None:
        return base, None, [("exception", got.exc)]
    for f in ("regs", "mem", "out", "exit", "retired", "err", "done", "ic", "bc", "jc", "steps"):
        if getattr(got, f) != getattr(base, f):
            bad.append(("transparency", f"{f}: uncached {str(getattr(base, f))[:80]} cached {str(getattr(got, f))[:80]}"))
            break
    # every fetch returns the instruction stored at that address
    for a, o in log:
        if a % 4 or not (0 <= a < 4 * len(prog)) or o is not rv.impl_of(prog[a // 4], a):
            bad.append(("fetch-value", f"read_instruction({a}) returned {o!r}, instruction memory holds {rv.ins_text(prog[a // 4]) if 0 <= a < 4 * len(prog) and a % 4 == 0 else 'nothing'}"))
            break
    ref = RefCache(ib, bb, ways, "wb", policy, pen)
    extra = 0
    last = False
    global _last_fetches
    _last_fetches = [a for a, _o in log]
    for a, _o in log:
        hit, e, _ev = ref.access(a, False, True)
        extra += e
        last = hit
    st = sim.get_instruction_cache_stats()
    if int(st["accesses"]) != len(log):
        bad.append(("accesses", f"accesses={st['accesses']}, fetches performed {len(log)}"))
    if mode == rv.SINGLE and got.err is None and len(log) != got.ic:
        bad.append(("one-fetch-per-instruction", f"{len(log)} fetches for {got.ic} executed instructions"))
    if int(st["hits"]) != ref.hits:
        bad.append(("hits", f"hits={st['hits']}, reference cache on the same fetch addresses {ref.hits}"))
    if log and bool(st["last_hit"]) != last:
        bad.append(("last-hit", f"last_hit={st['last_hit']}, reference {last}"))
    if got.cycles != base.cycles + extra:
        bad.append(("penalty", f"cycles={got.cycles}, uncached {base.cycles} + miss penalties {extra}"))
    return base, ref, bad


def case_of(prog, regs, words, cfg, mode, maxsteps):
    return dict(kind="icache", prog=[list(i) for i in prog], regs={str(k): v for k, v in regs.items()},
                words={str(k): v for k, v in words.items()}, cfg=list(cfg), mode=mode, maxsteps=maxsteps)


def prog_shard(shard):
    seed, thorough, length, first, nstates, steps = shard
    firsts = first if isinstance(first, tuple) else (first,)
    first = firsts[0]
    H = alpha.hazard_alphabet(seed, False)
    states = alpha.init_states(seed, nstates)
    cfgs = icfgs(seed, thorough)
    p = Partial()
    for tail in itertools.product(range(len(H)), repeat=length - len(firsts)):
        idx = firsts + tail
        prog = [H[i] for i in idx]
        for si, st in enumerate(states):
            for ci, cfg in enumerate(cfgs):
                for mode in (rv.SINGLE, rv.FIVE):
                    maxsteps = steps if mode == rv.SINGLE else 8 * steps
                    base, ref, bad = check_icache(prog, st["regs"], st["words"], cfg, mode, maxsteps)
                    p.evaluations += 1
                    if ref is not None:
                        if ref.hits and ref.accesses > ref.hits:
                            p.nontrivial += 1
                        for e in ref.events:
                            p.counters["icache-" + e] += 1
                    for f, d in bad:
                        p.violation(dict(oracle="icache", field=f), case_of(prog, st["regs"], st["words"], cfg, mode, maxsteps),
                                    f"[{rv.prog_text(prog)}] init#{si} icache i{cfg[0]}b{cfg[1]}w{cfg[2]} {cfg[3]} pen={cfg[4]} {mode}: {d}",
                                    size=(length, idx, si, ci))
    if firsts in ((0,), (0, 0)):
        p.sample(case_of([H[(7 * i + 1) % 18] for i in range(length)], states[0]["regs"], states[0]["words"], cfgs[0], rv.FIVE, 8 * steps))
    return p


def sized_programs(seed):
    """Loops / calls sized below, equal to and above the cache capacity, branch targets in the middle of a block,
    a final block extending past the program end."""
    r1, r2, r3 = alpha.regs_for_seed(seed)
    out = []
    for body in (1, 2, 3, 5, 7, 8, 9):
        for iters in (2, 3):
            prog = [("addi", 25, 0, 0, iters)]
            prog += [("addi", r1, r1, 0, 1)] * body
            prog += [("addi", 25, 25, 0, -1), ("bne", 0, 25, 0, -4 * (body + 1)), ("add", r2, r1, r1, 0)]
            out.append((f"loop-body{body}-x{iters}", prog))
    for pad in (0, 1, 2, 3, 5):
        prog = [("jal", 27, 0, 0, 4 * (3 + pad))] + [("addi", 26, 26, 0, 1)] * (2 + pad) + [("addi", r1, r1, 0, 7), ("beq", 0, 0, 0, 12), ("addi", r2, 0, 0, 1), ("jalr", 0, 27, 0, 0), ("addi", 17, 0, 0, 93)]
        out.append((f"call-pad{pad}", prog))
    for name, prog in templates(seed, False)[:: 37]:
        out.append(("tmpl-" + name, prog))
    # a loop that calls two subroutines: over-fills a 4-way set and revisits blocks in a non-cyclic order (LRU != PLRU)
    for iters in (2, 3):
        for pad in (0, 1, 3):
            prog = [("addi", 25, 0, 0, iters), ("jal", 27, 0, 0, 4 * (5 + pad)), ("jal", 27, 0, 0, 4 * (6 + pad)), ("addi", 25, 25, 0, -1), ("bne", 0, 25, 0, -12),
                    ("jal", 0, 0, 0, 4 * (5 + pad))] + [("addi", 26, 26, 0, 1)] * pad + [("addi", r1, r1, 0, 1), ("jalr", 0, 27, 0, 0), ("addi", r2, r2, 0, 1), ("jalr", 0, 27, 0, 0),
                                                                                    ("addi", 24, 0, 0, 1)]
            out.append((f"call-loop-x{iters}-pad{pad}", prog))
    # programs that fill the instruction memory up to (or nearly up to) its last word: the only executed instructions
    # are a jump over the padding and the tail, so the last cache blocks touch the end of the address range
    for short in (0, 1, 3):
        n = IMEM_WORDS - short
        tail = [("addi", r1, 0, 0, 7), ("addi", r2, r1, 0, 9), ("add", r3, r1, r2, 0)]
        prog = [("jal", 0, 0, 0, 4 * (n - len(tail)))] + [("addi", 0, 0, 0, 0)] * (n - len(tail) - 1) + tail
        out.append((f"full-memory-minus{short}", prog))
    # two blocks one page (4 KiB) / half a page / two pages apart that are fetched alternately: only a cache whose way is larger keeps both
    for dist in (1024, 512, 2048):
        prog = [("addi", 25, 0, 0, 3), ("jal", 0, 0, 0, 4 * dist), ("addi", 25, 25, 0, -1), ("bne", 0, 25, 0, -8), ("jal", 0, 0, 0, 4 * (dist + 2 - 4))]
        prog += [("addi", 0, 0, 0, 0)] * (dist + 1 - len(prog)) + [("jal", 0, 0, 0, -4 * (dist + 1 - 2)), ("addi", r1, 0, 0, 7)]
        out.append((f"blocks-{4 * dist}-bytes-apart", prog))
    return out


_S = Settings().get()
IMEM_WORDS = (_S["instruction_memory_max_bytes"] - _S["instruction_memory_min_bytes"]) // 4
SIZED_EXTRA_CFGS = [(0, 1, 4, "plru", 2), (1, 0, 4, "plru", 1), (0, 0, 8, "plru", 0), (0, 1, 4, "lru", 2), (0, 0, 3, "lru", 1), (0, 0, 4, "lru", 1), (0, 0, 5, "lru", 2),
                    # the largest geometries: one way as large as the whole instruction memory / half of it
                    (12, 0, 1, "lru", 3), (8, 3, 1, "lru", 1), (9, 1, 2, "plru", 2)]


def odd_target_programs(seed):
    """Control transfers whose target is 2 mod 4 or odd (numeric branch/jal offsets, jalr through odd registers)."""
    r1, r2, r3 = alpha.regs_for_seed(seed)
    A = [("beq", 0, 0, 0, 6), ("jal", 27, 0, 0, 10), ("jalr", 0, r2, 0, -3), ("addi", r1, r1, 0, 1), ("bne", 0, r1, 0, -6), ("jal", 0, 0, 0, -2), ("jalr", 26, r1, 0, 6)]
    out = []
    for L in (1, 2, 3):
        for idx in itertools.product(range(len(A)), repeat=L):
            out.append([A[i] for i in idx])
    return out


def odd_target_shard(shard):
    seed, part, parts = shard
    p = Partial()
    st = alpha.init_states(seed, 1)[0]
    cfgs = icfgs(seed, False)
    for i, prog in enumerate(odd_target_programs(seed)):
        if i % parts != part:
            continue
        for ci, cfg in enumerate(cfgs):
            for mode in (rv.SINGLE, rv.FIVE):
                base, ref, bad = check_icache(prog, st["regs"], st["words"], cfg, mode, 24 if mode == rv.SINGLE else 192)
                p.evaluations += 1
                p.nontrivial += 1
                p.counters["control-transfer-to-unaligned-target"] += 1
                for f, d in bad:
                    p.violation(dict(oracle="icache", field=f), case_of(prog, st["regs"], st["words"], cfg, mode, 24 if mode == rv.SINGLE else 192),
                                f"[{rv.prog_text(prog)}] icache i{cfg[0]}b{cfg[1]}w{cfg[2]} {cfg[3]} pen={cfg[4]} {mode}: {d}", size=(len(prog), i, ci))
    return p


def sized_shard(shard):
    seed, thorough, part, parts = shard
    states = alpha.init_states(seed, 2)
    cfgs = icfgs(seed, True) + SIZED_EXTRA_CFGS
    p = Partial()
    for i, (name, prog) in enumerate(sized_programs(seed)):
        if i % parts != part:
            continue
        for si, st in enumerate(states):
            for ci, cfg in enumerate(cfgs):
                for mode, inspect in ((rv.SINGLE, False), (rv.FIVE, False)) + (((rv.SINGLE, True), (rv.FIVE, True)) if cfg[2] >= 3 and len(prog) < 200 else ()):
                    base, ref, bad = check_icache(prog, st["regs"], st["words"], cfg, mode, 400, inspect)
                    p.evaluations += 1
                    if inspect:
                        p.counters["cache-table-looked-at-after-every-step"] += 1
                        bad = [(f, d + " (cache table and statistics looked at after every step)") for f, d in bad]
                    if len(prog) > 500 and cfg[0] + cfg[1] > 10 and ref is not None and ref.hits:
                        p.counters["far-apart-blocks-in-the-largest-cache"] += 1
                    if ref is not None and "eviction" in ref.events:
                        p.nontrivial += 1
                        p.counters["icache-loop-eviction"] += 1
                    if ref is not None and cfg[2] >= 4 and cfg[3] == "plru":
                        other = RefCache(cfg[0], cfg[1], cfg[2], "wb", "lru", cfg[4])
                        for a in _last_fetches:
                            other.access(a, False, True)
                        if other.hits != ref.hits:
                            p.counters["fetch-stream-distinguishes-plru-from-lru"] += 1
                    for f, d in bad:
                        p.violation(dict(oracle="icache", field=f), dict(case_of(prog, st["regs"], st["words"], cfg, mode, 400), inspect=inspect),
                                    f"{name} [{rv.prog_text(prog) if len(prog) < 40 else rv.prog_text(prog[:3]) + f'; ... ({len(prog)} instructions) ...; ' + rv.prog_text(prog[-3:])}] icache i{cfg[0]}b{cfg[1]}w{cfg[2]} {cfg[3]} pen={cfg[4]} {mode}: {d}", size=(len(prog), i, si, ci))
    return p


# ---- reload clause: BFS over {load P_a, load P_b, step} ------------------------------------------------
PA = "addi x1, x0, 1\naddi x2, x0, 2\nadd x3, x1, x2\nbeq x0, x0, 8\naddi x4, x0, 4\naddi x5, x0, 5\n"
PB = "lui x6, 1\naddi x7, x0, 7\njal x1, 16\naddi x8, x0, 8\naddi x9, x0, 9\naddi x10, x0, 10\naddi x17, x0, 93\necall\n"
PC = ""
PD = ("addi x25, x0, 3\nloop: jal x27, f\njal x27, g\naddi x25, x25, -1\nbne x25, x0, loop\njal x0, end\nf: addi x6, x6, 1\njalr x0, x27, 0\n"
      "g: addi x7, x7, 1\njalr x0, x27, 0\nend: addi x8, x0, 1\n")
PE = "addi x1, x0, 1\naddi x2, x0\n"  # does not assemble
TEXTS = [PA, PB, PC, PD, PE]


def snapshot(sim):
    st = sim.state
    return (rv.regs_of(sim), st.program_counter, st.output, st.exit_code, sim.is_done(), st.performance_metrics.cycles,
            st.performance_metrics.instruction_count, str(sim.get_instruction_cache_stats()), sim.get_instruction_memory_entries(),
            _cache_text(sim))


def _cache_text(sim):
    cr = sim.get_instruction_cache_entries()
    if cr is None:
        return None
    return [(s.index, [(b.valid_bit, b.tag, [(a, v) for a, v in b.address_value_list]) for b in s.blocks], list(s.replacement_status)) for s in cr.sets]


def reload_case(cfg, mode, xi, yi, k, maxsteps=90):
    """load X; k steps; load Y; run. Returns (list of (field, detail), nontrivial)."""
    from architecture_simulator.simulation.riscv_simulation import RiscvSimulation

    ib, bb, ways, policy, pen = cfg

    def fresh():
        return RiscvSimulation(mode=mode, instruction_cache=rv.cache_opts(ib, bb, ways, "wb", policy, pen))

    from architecture_simulator.isa.parser_exceptions import ParserException

    def load(s, text):
        try:
            s.load_program(text)
            return True
        except ParserException:
            return False

    sim = fresh()
    plain = RiscvSimulation(mode=mode)  # the same history on a simulation without an instruction cache
    if not load(sim, TEXTS[xi]) & load(plain, TEXTS[xi]):
        k = 0
    n = 0
    while n < k and not sim.is_done():
        sim.step()
        plain.step()
        n += 1
    if n < k:
        return None, False  # X finished earlier: covered by a smaller k
    warmed = int(sim.get_instruction_cache_stats()["accesses"]) > 0
    ok_c, ok_p = load(sim, TEXTS[yi]), load(plain, TEXTS[yi])
    bad = []
    if ok_c != ok_p or sim.get_instruction_memory_entries() != plain.get_instruction_memory_entries() or sim.has_instructions() != plain.has_instructions():
        bad.append(("reload-differs-from-uncached", f"after the reload (accepted: cached {ok_c}, uncached {ok_p}) the instruction listing / has_instructions differ from the uncached simulation"))
    if not ok_c:
        # a rejected program leaves no instructions behind; nothing more to run
        st = sim.get_instruction_cache_stats()
        if sim.has_instructions() or any(b[0] != "0" for s_ in _cache_text(sim) for b in s_[1]) or st["accesses"] != "0":
            bad.append(("reload-rejected-program-leaves-state", "after a rejected load the cached instruction memory is not empty"))
        return bad, warmed
    st = sim.get_instruction_cache_stats()
    ct = _cache_text(sim)
    if any(b[0] != "0" for s_ in ct for b in s_[1]):
        bad.append(("reload-cache-not-empty", "instruction cache holds valid blocks right after load_program"))
    if st["hits"] != "0" or st["accesses"] != "0" or st["last_hit"]:
        bad.append(("reload-counters", f"instruction cache counters after load_program: {st}"))
    if k == 0:
        ref = fresh()
        ref.load_program(TEXTS[yi])
        if snapshot(sim) != snapshot(ref):
            bad.append(("reload-differs-from-fresh", "state after reload differs from a fresh simulation with the same program"))
    listing = {a: t for (a, _h), t, _stage in sim.get_instruction_memory_entries()}
    log = spy.spy_fetch(sim)
    refc = RefCache(ib, bb, ways, "wb", policy, pen)
    c0 = sim.state.performance_metrics.cycles
    steps = 0
    faulted = False
    try:
        while not sim.is_done() and steps < maxsteps:
            sim.step()
            steps += 1
            if k == 0:
                ref.step()
                if snapshot(sim) != snapshot(ref):
                    bad.append(("run-after-reload", f"step {steps} after reload differs from the same step on a fresh simulation"))
                    break
    except rv.InstructionExecutionException:
        faulted = True  # the cycle accounting of a step that ends in a fault is not part of the claim
    extra = 0
    for a, o in log:
        extra += refc.access(a, False, True)[1]
        if listing.get(a) != repr(o):
            bad.append(("stale-instruction", f"fetch at {a} returned '{o!r}' but the loaded program holds '{listing.get(a)}'"))
            break
    st = sim.get_instruction_cache_stats()
    if int(st["accesses"]) != len(log) or int(st["hits"]) != refc.hits:
        bad.append(("reload-accounting", f"after reload: stats {st}, fetches {len(log)}, reference hits {refc.hits}"))
    if not faulted and sim.state.performance_metrics.cycles - c0 != steps + extra:
        bad.append(("reload-penalty", f"cycles advanced by {sim.state.performance_metrics.cycles - c0} in {steps} steps with penalties {extra}"))
    return bad, warmed and len(log) > 0


def sparse_query_case(cfg, mode, xi, yi, k, j):
    """load X; k steps; ask for the statistics; load Y; j steps; ask again — the statistics functions are called at these
    two points ONLY (an observer whose answer depends on when it was asked before is wrong)."""
    from architecture_simulator.simulation.riscv_simulation import RiscvSimulation
    from architecture_simulator.isa.parser_exceptions import ParserException

    ib, bb, ways, policy, pen = cfg
    sim = RiscvSimulation(mode=mode, instruction_cache=rv.cache_opts(ib, bb, ways, "wb", policy, pen))
    bad = []
    reached = []
    for phase, (ti, steps) in enumerate(((xi, k), (yi, j))):
        try:
            sim.load_program(TEXTS[ti])
        except ParserException:
            pass
        log = spy.spy_fetch(sim)
        n = 0
        try:
            while n < steps and not sim.is_done():
                sim.step()
                n += 1
        except rv.InstructionExecutionException:
            pass
        reached.append(n == steps)
        refc = RefCache(ib, bb, ways, "wb", policy, pen)
        last = False
        for a, _o in log:
            last = refc.access(a, False, True)[0]
        st = sim.get_instruction_cache_stats()
        if (int(st["accesses"]), int(st["hits"])) != (len(log), refc.hits) or (log and bool(st["last_hit"]) != last):
            bad.append(("sparse-query", f"statistics asked after {n} steps of program {ti} (phase {phase + 1}): {st}; fetches {len(log)}, reference hits {refc.hits}, last hit {last}"))
            break
    return bad, all(reached)


def sparse_shard(shard):
    cfg, mode, maxk, maxj, xi = shard
    p = Partial()
    for xi in (xi,):
        for yi in range(len(TEXTS) - 1):
            for k in range(maxk + 1):
                for j in range(maxj + 1):
                    bad, reached = sparse_query_case(cfg, mode, xi, yi, k, j)
                    if not reached:
                        continue  # a program ended earlier: covered by smaller k / j
                    p.evaluations += 1
                    if k and j:
                        p.nontrivial += 1
                        p.counters["statistics-asked-only-twice"] += 1
                    for f, d in bad:
                        p.violation(dict(oracle="icache-reload", field=f), dict(kind="icache-sparse", cfg=list(cfg), mode=mode, x=xi, y=yi, k=k, j=j),
                                    f"icache i{cfg[0]}b{cfg[1]}w{cfg[2]} {cfg[3]} {mode}: load P{xi}; {k} steps; stats; load P{yi}; {j} steps; stats: {d}", size=(k + j, xi, yi))
    return p


def reload_shard(shard):
    cfg, mode, maxk = shard
    p = Partial()
    for xi in range(len(TEXTS)):
        for yi in range(len(TEXTS)):
            for k in range(maxk + 1):
                bad, nontrivial = reload_case(cfg, mode, xi, yi, k)
                if bad is None:
                    continue
                p.evaluations += 1
                if nontrivial:
                    p.nontrivial += 1
                    p.counters["reload-over-warm-cache"] += 1
                for f, d in bad:
                    p.violation(dict(oracle="icache-reload", field=f), dict(kind="icache-reload", cfg=list(cfg), mode=mode, x=xi, y=yi, k=k),
                                f"icache i{cfg[0]}b{cfg[1]}w{cfg[2]} {cfg[3]} {mode}: load P{xi}; {k} steps; load P{yi}; run: {d}", size=(k, xi, yi))
    p.sample(dict(kind="icache-reload", cfg=list(cfg), mode=mode, x=0, y=1, k=3))
    return p


def replay(case):
    if case["kind"] == "icache-sparse":
        bad, _r = sparse_query_case(tuple(case["cfg"]), case["mode"], case["x"], case["y"], case["k"], case["j"])
        return [(dict(oracle="icache-reload", field=f), d) for f, d in bad]
    if case["kind"] == "icache-reload":
        bad, _n = reload_case(tuple(case["cfg"]), case["mode"], case["x"], case["y"], case["k"])
        return [(dict(oracle="icache-reload", field=f), d) for f, d in (bad or [])]
    prog = [tuple(i) for i in case["prog"]]
    regs = {int(k): v for k, v in case["regs"].items()}
    words = {int(k): v for k, v in case["words"].items()}
    _b, _r, bad = check_icache(prog, regs, words, tuple(case["cfg"]), case["mode"], case["maxsteps"], bool(case.get("inspect")))
    return [(dict(oracle="icache", field=f), f"[{rv.prog_text(prog)}]: {d}") for f, d in bad]


def run(ctx):
    seed, thorough = ctx.seed, not ctx.quick
    ctx.rule = ("Every program up to a length bound over H18 (plus loops/calls sized below, equal to and above the cache capacity) x instruction-cache "
                "geometries x LRU/PLRU x penalties x both pipeline modes: same final state / output / retire order / fault as the real uncached run in "
                "the same mode; every read_instruction(a) (wrapped per instance) returns the object stored at a; accesses == fetches performed (== "
                "executed instructions in single-cycle mode); hits, last_hit and the cycle surcharge equal a reference cache fed the observed fetch "
                "addresses. Reload clause: every history load X; k steps; load Y; run (X, Y from two programs sharing cache sets and the empty program, k = 0..14): "
                "empty cache and zero counters right after the load, every later fetch returns Y's instruction, accounting restarts from an empty "
                "reference cache, and for k = 0 every step equals the same step on a fresh simulation; plus histories in which the statistics are asked for at two points only (after k steps of X and after j steps of Y, all k, j). Non-trivial = run with both hits and misses / loop run with an eviction / reload after an earlier load.")
    ctx.assumptions += ["which wrong-path instructions are fetched in five-stage mode is taken from the observed fetch stream, not predicted"]
    steps = 24 if ctx.quick else 40
    nstates = 1 if ctx.quick else 2
    for L in range(1, (3 if ctx.quick else 4) + 1):
        t0 = time.time()
        shards = [(seed, thorough, L, f, nstates, steps) for f in range(18)] if L < 3 else [(seed, thorough, L, (f, g), nstates, steps) for f in range(18) for g in range(18)]
        part = pmap(prog_shard, shards)
        ctx.space(f"icache-programs-len{L}", part, t0, length=L, cache_configs=len(icfgs(seed, thorough)), modes=2, init_states=nstates)
    t0 = time.time()
    part = pmap(sized_shard, [(seed, thorough, i, 32) for i in range(32)])
    ctx.space("icache-sized-loops-and-calls", part, t0, programs=len(sized_programs(seed)), cache_configs=len(icfgs(seed, True)))
    t0 = time.time()
    part = pmap(odd_target_shard, [(seed, i, 32) for i in range(32)])
    ctx.space("icache-unaligned-targets", part, t0, programs=len(odd_target_programs(seed)))
    t0 = time.time()
    rc = [(0, 0, 1, "lru", 2), (1, 0, 1, "lru", 0), (0, 1, 2, "plru", 3), (1, 1, 2, "lru", 1), (0, 0, 4, "plru", 1), (0, 1, 4, "plru", 0)] + ([(0, 2, 1, "lru", 2), (1, 0, 4, "plru", 2)] if thorough else [])
    part = pmap(reload_shard, [(c, m, 14) for c in rc for m in (rv.SINGLE, rv.FIVE)])
    ctx.space("icache-reload", part, t0, histories="load X; k steps (k = 0..14); load Y; run to completion, X, Y in {P_a, P_b, empty}")
    t0 = time.time()
    part = pmap(sparse_shard, [(c, m, 9 if ctx.quick else 12, 12 if ctx.quick else 24, xi) for c in rc[:4] + rc[6:] for m in (rv.SINGLE, rv.FIVE) for xi in range(len(TEXTS) - 1)])
    ctx.space("icache-statistics-asked-twice", part, t0, histories="load X; k steps; statistics; load Y; j steps; statistics (no other statistics call)", k="0..9 (12)", j="0..12 (24)")
    ctx.require("statistics-asked-only-twice", "cache-table-looked-at-after-every-step", "far-apart-blocks-in-the-largest-cache")
    ctx.require("icache-eviction", "icache-hit", "icache-miss", "icache-loop-eviction", "reload-over-warm-cache", "fetch-stream-distinguishes-plru-from-lru", "control-transfer-to-unaligned-target")
