"""C10 — replacement policies: LRU evicts the least recently used, PLRU follows its tree (BFS to a fixed point)."""
from __future__ import annotations

import copy
import os
import time

from architecture_simulator.uarch.memory.replacement_strategies import LRU, PLRU

from vf.checks import cachebfs
from vf.ref import rv32
from vf.engine.canon import canon
from vf.engine.core import REPO, Partial, pmap
from vf.ref import policy as pol

ID = "C10"
LEVEL = "model_checking"


def make(kind, n):
    return (LRU(n), pol.LRURef(n)) if kind == "lru" else (PLRU(n), pol.PLRURef(n))


def observe(kind, impl, ref):
    """(field, detail) list for one state."""
    try:
        return _observe(kind, impl, ref)
    except Exception as e:  # noqa
        return [("exception", f"{type(e).__name__}: {e}")]


def _observe(kind, impl, ref):
    bad = []
    v = impl.get_next_to_replace()
    if v != ref.victim():
        bad.append(("victim", f"next victim {v}, reference {ref.victim()}"))
    r = list(impl.get_repr())
    exp = ref.ranks() if kind == "lru" else ref.bits()
    if r != list(exp):
        bad.append(("repr", f"get_repr() {r}, reference {list(exp)}"))
    return bad


def same_behaviour(a, b, n):
    """Observable equality of two policy objects: victim and representation now and after any one further access."""
    # observe copies only: the objects handed in stay untouched (an observer call is an operation of its own in the BFS)
    a, b = copy.deepcopy(a), copy.deepcopy(b)
    if a.get_next_to_replace() != b.get_next_to_replace() or list(a.get_repr()) != list(b.get_repr()):
        return False
    for j in range(n):
        a2, b2 = copy.deepcopy(a), copy.deepcopy(b)
        a2.access(j)
        b2.access(j)
        if a2.get_next_to_replace() != b2.get_next_to_replace() or list(a2.get_repr()) != list(b2.get_repr()):
            return False
    return True


def replay_hist(kind, n, hist):
    impl, ref = make(kind, n)
    for i in hist:
        impl.access(i)
        ref.access(i)
    return impl, ref


def apply_op(kind, impl, ref, op):
    """op: ('a', i) access | ('r',) get_repr | ('v',) get_next_to_replace. Returns (field, detail) or None."""
    try:
        if op[0] == "a":
            impl.access(op[1])
            ref.access(op[1])
            return None
        if op[0] == "r":
            got = list(impl.get_repr())
            exp = list(ref.ranks() if kind == "lru" else ref.bits())
            return None if got == exp else ("repr", f"get_repr() {got}, reference {exp}")
        got = impl.get_next_to_replace()
        return None if got == ref.victim() else ("victim", f"next victim {got}, reference {ref.victim()}")
    except Exception as e:  # noqa
        return ("exception", f"{type(e).__name__}: {e}")


def opn(op):
    return f"access({op[1]})" if op[0] == "a" else ("get_repr()" if op[0] == "r" else "get_next_to_replace()")


def policy_space(shard):
    """Complete reachable state space of one policy object. Operations: every access AND the two observers (an observer's
    answer must not depend on earlier observer calls, so they are operations on the live object, not side conditions)."""
    kind, n = shard
    p = Partial()
    impl, ref = make(kind, n)
    ops = [("a", i) for i in range(n)] + [("r",), ("v",)]
    seen = {(canon(impl), ref.key()): ()}
    frontier = [((), impl, ref)]
    while frontier:
        nxt = []
        for hist, impl, ref in frontier:
            for op in ops:
                im2 = copy.deepcopy(impl)
                rf2 = ref.copy()
                h2 = hist + (op,)
                p.transitions += 1
                p.evaluations += 1
                p.traces += 1
                bad = []
                d = apply_op(kind, im2, rf2, op)
                if d:
                    bad.append(d)
                elif op[0] == "a":
                    try:
                        # idempotence: a second access to the same block leaves the observable state unchanged
                        im3 = copy.deepcopy(im2)
                        im3.access(op[1])
                        if not same_behaviour(im3, im2, n):
                            bad.append(("idempotence", f"access({op[1]}) twice differs from access({op[1]}) once (victim / get_repr now or after one more access)"))
                    except Exception as e:  # noqa
                        bad.append(("exception", f"{type(e).__name__}: {e}"))
                for f, dd in bad:
                    p.violation(dict(oracle="policy", policy=kind, field=f), dict(kind="policy", policy=kind, n=n, hist=[list(o) for o in h2]),
                                f"{kind}({n}) after {[opn(o) for o in h2]}: {dd}", size=(len(h2), tuple(map(str, h2))))
                if d and d[0] == "exception":
                    continue
                k = (canon(im2), rf2.key())
                if k not in seen:
                    seen[k] = h2
                    nxt.append((h2, im2, rf2))
                    if rf2.victim() != 0:
                        p.nontrivial += 1
        frontier = nxt
        if p.viol and len(seen) > 50000:
            break
    p.states = len(seen)
    p.notes["space"] = (kind, n, len(seen))
    p.sample(dict(kind="policy", policy=kind, n=n, hist=[opn(o) for o in max(seen.values(), key=len)]))
    return p


_CODE = None


def pristine_classes():
    """The policy classes of the tree under test, executed afresh: class-level and module-level state starts as it does
    in a new process, whatever earlier histories did (a history that fails here fails in a fresh interpreter, too)."""
    global _CODE
    if _CODE is None:
        path = os.path.join(REPO, "architecture_simulator", "uarch", "memory", "replacement_strategies.py")
        with open(path) as f:
            _CODE = compile(f.read(), path, "exec")
    ns = {"__name__": "architecture_simulator.uarch.memory.replacement_strategies"}
    exec(_CODE, ns)
    return {"lru": ns["LRU"], "plru": ns["PLRU"]}


def run_pair(objs, hist):
    """Two live policy objects in one process, one history of operations on either. -> (step, field, detail) or None"""
    cls = pristine_classes()
    live = []
    for kind, n in objs:
        live.append((kind, cls[kind](n), pol.LRURef(n) if kind == "lru" else pol.PLRURef(n)))
    for k, (w, op) in enumerate(hist):
        kind, impl, ref = live[w]
        d = apply_op(kind, impl, ref, op)
        if d:
            return k, d[0], d[1]
    return None


def pair_name(objs, hist):
    names = [f"{'AB'[w]}={k.upper()}({n})" for w, (k, n) in enumerate(objs)]
    return ", ".join(names) + ": " + "; ".join(f"{'AB'[w]}.{opn(op)}" for w, op in hist)


def pair_shard(shard):
    """Every history up to the given length over the operations of TWO policy objects that live side by side (same or
    different kind and size), each history on pristine classes: one object's answers never depend on another object."""
    objs, first, depth = shard
    p = Partial()
    ops = [(w, o) for w, (kind, n) in enumerate(objs) for o in [("a", i) for i in range(n)] + [("r",), ("v",)]]

    def rec(hist):
        p.evaluations += 1
        p.traces += 1
        p.transitions += 1
        bad = run_pair(objs, hist)
        if bad is not None:
            k, f, d = bad
            p.violation(dict(oracle="policy-pair", policy=objs[hist[k][0]][0], field=f),
                        dict(kind="policy-pair", objs=[list(o) for o in objs], hist=[[w, list(o)] for w, o in hist]),
                        pair_name(objs, hist[:k + 1]) + ": " + d, size=(len(hist), pair_name(objs, hist)))
            return
        if len({w for w, _ in hist}) == 2:
            p.nontrivial += 1
            p.counters["pair-interleaved"] += 1
        if len(hist) < depth:
            for o in ops:
                rec(hist + [o])

    rec([first])
    return p

# ---- (3) the policy a cache is CONFIGURED with is the policy in effect, for both caches of one simulation -----------------
CROSS_WAYS = (3, 4, 8)


def cross_case(ipol, dpol, ien, den, ways):
    """One simulation with an instruction cache (policy ipol) and a data cache (policy dpol), each enabled or merely configured.
    The pair-cover sequence of ways+1 colliding blocks is driven through each enabled cache; after every access the tags per
    way and the replacement_status shown by the cache table equal the reference policy of THAT cache's own configuration."""
    from architecture_simulator.simulation.riscv_simulation import RiscvSimulation
    from architecture_simulator.uarch.memory.cache import CacheOptions
    from vf.ref.cache import RefCache
    iw = ways if ipol == "lru" or ways & (ways - 1) == 0 else 4
    dw = ways if dpol == "lru" or ways & (ways - 1) == 0 else 4
    try:
        sim = RiscvSimulation(data_cache=CacheOptions(den, 0, 0, dw, "wb", dpol, 0), instruction_cache=CacheOptions(ien, 0, 0, iw, "wb", ipol, 0))
        sim.load_program("nop\n" * (max(iw, dw) + 2))
    except Exception as e:  # noqa
        return ("construction", f"building the simulation raised {type(e).__name__}: {e}")
    seq_of = lambda n: cachebfs.pair_cover(n + 1)  # noqa
    for which, enabled, pol, w in (("instruction", ien, ipol, iw), ("data", den, dpol, dw)):
        if not enabled:
            continue
        ref = RefCache(0, 0, w, "wb", pol, 0)
        for step, b in enumerate(seq_of(w)):
            try:
                if which == "instruction":
                    a = 4 * b
                    sim.state.instruction_memory.read_instruction(a)
                    cr = sim.state.instruction_memory.cache_repr()
                else:
                    a = rv32.MINADDR + 4 * b
                    sim.state.memory.read_word(a)
                    cr = sim.state.memory.cache_repr()
            except Exception as e:  # noqa
                return ("access", f"{which} cache ({pol}, {w} ways): access {step} raised {type(e).__name__}: {e}")
            ref.access(a, False, True)
            st = cr.sets[0]
            tags = [int(blk.tag, 16) if blk.valid_bit == "1" else None for blk in st.blocks]
            if tags != ref.tags[0]:
                return ("victim", f"{which} cache configured {pol} ({w} ways; the other cache: {dpol if which == 'instruction' else ipol}): after access {step} of the pair-cover "
                                  f"sequence the tags per way are {tags}, the {pol} reference has {ref.tags[0]}")
            if list(st.replacement_status) != list(ref.policy_state(0)):
                return ("policy-state", f"{which} cache configured {pol} ({w} ways): replacement_status {list(st.replacement_status)}, {pol} reference {list(ref.policy_state(0))}")
    return None


def cross_shard(shard):
    ipol, dpol = shard
    p = Partial()
    for ien, den in ((True, True), (True, False), (False, True)):
        for ways in CROSS_WAYS:
            p.evaluations += 1
            p.nontrivial += 1
            p.counters["configured-policy-in-effect"] += 1
            d = cross_case(ipol, dpol, ien, den, ways)
            if d:
                p.violation(dict(oracle="configured-policy", field=d[0]), dict(kind="policy-cross", ipol=ipol, dpol=dpol, ien=ien, den=den, ways=ways),
                            f"instruction cache {ipol}{'' if ien else ' (disabled)'} / data cache {dpol}{'' if den else ' (disabled)'}: {d[1]}", size=(ways, int(ien), int(den)))
    p.sample(dict(kind="policy-cross", ipol=ipol, dpol=dpol, ien=True, den=True, ways=4))
    return p


def replay(case):
    if case["kind"] == "policy-cross":
        d = cross_case(case["ipol"], case["dpol"], case["ien"], case["den"], case["ways"])
        return [(dict(oracle="configured-policy", field=d[0]), d[1])] if d else []
    if case["kind"] in ("cache-history", "cache-deep-path"):
        return cachebfs.replay(case)
    if case["kind"] == "policy-pair":
        objs = [tuple(o) for o in case["objs"]]
        hist = [(w, tuple(o)) for w, o in case["hist"]]
        bad = run_pair(objs, hist)
        if bad is None:
            return []
        k, f, d = bad
        return [(dict(oracle="policy-pair", policy=objs[hist[k][0]][0], field=f), pair_name(objs, hist[:k + 1]) + ": " + d)]
    kind, n = case["policy"], case["n"]
    hist = [tuple(o) for o in case["hist"]]
    impl, ref = make(kind, n)
    out = []
    for k, op in enumerate(hist):
        d = apply_op(kind, impl, ref, op)
        if d:
            out.append((dict(oracle="policy", policy=kind, field=d[0]), f"{kind}({n}) after {[opn(o) for o in hist[:k + 1]]}: {d[1]}"))
            break
    if not out and hist and hist[-1][0] == "a":
        im3 = copy.deepcopy(impl)
        im3.access(hist[-1][1])
        if not same_behaviour(im3, impl, n):
            out.append((dict(oracle="policy", policy=kind, field="idempotence"), "second access changes the observable state"))
    return out


def run(ctx):
    thorough = not ctx.quick
    ctx.rule = ("(1) complete reachable state space of LRU(n) and PLRU(n) objects: BFS to a fixed point over the operations {access(i), get_repr(), "
                "get_next_to_replace()} from every state (the observers are operations on the live object: their answers must not depend on earlier observer "
                "calls), victim / get_repr() against reference policies (LRU by time stamps, PLRU as an explicit recursive tree), idempotence of a "
                "repeated access; (1b) every history up to a bound over the operations of TWO policy objects living side by side (all pairs of kinds and sizes, same or different), each history on freshly executed class definitions, every answer against the reference of its own object; (2) binding to the cache set: BFS to closure over word reads/writes of ways+1 colliding tags on a real "
                "one-set data cache (constant data), comparing way-by-way tags and the replacement_status shown by cache_repr() after every "
                "read hit, write hit and fill. Non-trivial = a state whose victim is not way 0 / a history with an eviction.")
    ctx.assumptions += ["PLRU get_repr() is read as the heap-ordered bit array the GUI draws (0 = older blocks in the upper/low-index subtree)"]
    t0 = time.time()
    lru_n = range(1, 7) if ctx.quick else range(1, 9)
    plru_n = (1, 2, 4, 8) if ctx.quick else (1, 2, 4, 8, 16)
    shards = [("lru", n) for n in lru_n] + [("plru", n) for n in plru_n]
    part = pmap(policy_space, shards[::-1])
    ctx.space("policy-objects", part, t0, lru_ways=list(lru_n), plru_ways=list(plru_n), closed=True)
    # (1b) two objects side by side
    t0 = time.time()
    kinds = [("lru", 1), ("lru", 2), ("lru", 3), ("plru", 1), ("plru", 2), ("plru", 4)] + ([("lru", 4), ("plru", 8)] if thorough else [])
    shards = []
    depths = set()
    for i, a in enumerate(kinds):
        for b in kinds[i:]:
            objs = (a, b)
            nops = a[1] + b[1] + 4
            depth = (5 if nops <= 10 else 4) if ctx.quick else (7 if nops <= 8 else 6 if nops <= 12 else 5 if nops <= 14 else 4)
            depths.add(depth)
            for w, (kind, n) in enumerate(objs):
                for o in [("a", j) for j in range(n)] + [("r",), ("v",)]:
                    shards.append((objs, (w, o), depth))
    part = pmap(pair_shard, shards)
    ctx.space("policy-pairs", part, t0, objects=[f"{k}({n})" for k, n in kinds], pairs=len(kinds) * (len(kinds) + 1) // 2, history_lengths=sorted(depths),
              note="each history starts from freshly executed class definitions")
    ctx.require("pair-interleaved")
    # (2) set binding through the memory system
    cfgs = []
    for kind in ("wb", "wt"):
        for policy, ways in (("lru", 1), ("lru", 2), ("lru", 3), ("plru", 2), ("plru", 4)) + ((("lru", 4), ("plru", 8)) if thorough else ()):
            cfgs.append(cachebfs.Cfg(0, 0, ways, kind, policy, 0, "control", False, "base", True))
    cfgs.append(cachebfs.Cfg(1, 0, 2, "wb", "lru", 0, "control", False, "base", True))
    cfgs.append(cachebfs.Cfg(1, 1, 2, "wt", "plru", 0, "control", False, "base", True))
    for cfg in cfgs:
        res = cachebfs.explore(ctx, cfg, ("policy",), 40)
    ctx.require("cache-eviction", "cache-fill", "cache-hit")
    t0 = time.time()
    part = pmap(cross_shard, [(i, d) for i in ("lru", "plru") for d in ("lru", "plru")])
    ctx.space("configured-policy-in-effect", part, t0, ways=list(CROSS_WAYS), note="both caches of one simulation, each enabled or merely configured, every pairing of policies")
    ctx.require("configured-policy-in-effect")
