"""C10 — replacement policies: LRU evicts the least recently used, PLRU follows its tree (BFS to a fixed point)."""
from __future__ import annotations

import copy
import time

from architecture_simulator.uarch.memory.replacement_strategies import LRU, PLRU

from vf.checks import cachebfs
from vf.engine.canon import canon
from vf.engine.core import Partial, pmap
from vf.ref import policy as pol

ID = "C10"
LEVEL = "model_checking"


def make(kind, n):
    return (LRU(n), pol.LRURef(n)) if kind == "lru" else (PLRU(n), pol.PLRURef(n))


def observe(kind, impl, ref):
    """(field, detail) list for one state."""
    try:
        return _observe(kind, impl, ref)
    except Exception as e:  # noqa
        return [("exception", f"{type(e).__name__}: {e}")]


def _observe(kind, impl, ref):
    bad = []
    v = impl.get_next_to_replace()
    if v != ref.victim():
        bad.append(("victim", f"next victim {v}, reference {ref.victim()}"))
    r = list(impl.get_repr())
    exp = ref.ranks() if kind == "lru" else ref.bits()
    if r != list(exp):
        bad.append(("repr", f"get_repr() {r}, reference {list(exp)}"))
    return bad


def same_behaviour(a, b, n):
    """Observable equality of two policy objects: victim and representation now and after any one further access."""
    if a.get_next_to_replace() != b.get_next_to_replace() or list(a.get_repr()) != list(b.get_repr()):
        return False
    for j in range(n):
        a2, b2 = copy.deepcopy(a), copy.deepcopy(b)
        a2.access(j)
        b2.access(j)
        if a2.get_next_to_replace() != b2.get_next_to_replace() or list(a2.get_repr()) != list(b2.get_repr()):
            return False
    return True


def replay_hist(kind, n, hist):
    impl, ref = make(kind, n)
    for i in hist:
        impl.access(i)
        ref.access(i)
    return impl, ref


def policy_space(shard):
    """Complete reachable state space of one policy object: every access from every state."""
    kind, n = shard
    p = Partial()
    impl, ref = make(kind, n)
    seen = {(canon(impl), ref.key()): ()}
    frontier = [((), impl, ref)]
    for f, d in observe(kind, impl, ref):
        p.violation(dict(oracle="policy", policy=kind, field=f), dict(kind="policy", policy=kind, n=n, hist=[]), f"{kind}({n}) initial: {d}")
    while frontier:
        nxt = []
        for hist, impl, ref in frontier:
            for i in range(n):
                im2 = copy.deepcopy(impl)
                rf2 = ref.copy()
                h2 = hist + (i,)
                p.transitions += 1
                p.evaluations += 1
                p.traces += 1
                rf2.access(i)
                try:
                    im2.access(i)
                    bad = observe(kind, im2, rf2)
                    # idempotence: a second access to the same block leaves the state unchanged
                    im3 = copy.deepcopy(im2)
                    im3.access(i)
                    if not same_behaviour(im3, im2, n):
                        bad.append(("idempotence", f"access({i}) twice differs from access({i}) once (victim / get_repr now or after one more access)"))
                except Exception as e:  # noqa
                    bad = [("exception", f"access({i}) raised {type(e).__name__}: {e}")]
                    im2 = None
                for f, d in bad:
                    p.violation(dict(oracle="policy", policy=kind, field=f), dict(kind="policy", policy=kind, n=n, hist=list(h2)),
                                f"{kind}({n}) after accesses {list(h2)}: {d}", size=(len(h2), h2))
                if im2 is None:
                    continue
                k = (canon(im2), rf2.key())
                if k not in seen:
                    seen[k] = h2
                    nxt.append((h2, im2, rf2))
                    if rf2.victim() != 0:
                        p.nontrivial += 1
        frontier = nxt
        if p.viol and len(seen) > 50000:
            break
    p.states = len(seen)
    p.notes["space"] = (kind, n, len(seen))
    p.sample(dict(kind="policy", policy=kind, n=n, hist=list(max(seen.values(), key=len))))
    return p


def replay(case):
    if case["kind"] == "cache-history":
        return cachebfs.replay(case)
    kind, n, hist = case["policy"], case["n"], case["hist"]
    try:
        impl, ref = replay_hist(kind, n, hist)
    except Exception as e:  # noqa
        return [(dict(oracle="policy", policy=kind, field="exception"), f"{kind}({n}) after {hist}: {type(e).__name__}: {e}")]
    bad = observe(kind, impl, ref)
    if hist:
        im3 = copy.deepcopy(impl)
        im3.access(hist[-1])
        if not same_behaviour(im3, impl, n):
            bad.append(("idempotence", "second access changes the observable state"))
    return [(dict(oracle="policy", policy=kind, field=f), f"{kind}({n}) after {hist}: {d}") for f, d in bad]


def run(ctx):
    thorough = not ctx.quick
    ctx.rule = ("(1) complete reachable state space of LRU(n) and PLRU(n) objects: BFS to a fixed point, every access from every state, "
                "victim / get_repr() against reference policies (LRU by time stamps, PLRU as an explicit recursive tree), idempotence of a "
                "repeated access; (2) binding to the cache set: BFS to closure over word reads/writes of ways+1 colliding tags on a real "
                "one-set data cache (constant data), comparing way-by-way tags and the replacement_status shown by cache_repr() after every "
                "read hit, write hit and fill. Non-trivial = a state whose victim is not way 0 / a history with an eviction.")
    ctx.assumptions += ["PLRU get_repr() is read as the heap-ordered bit array the GUI draws (0 = older blocks in the upper/low-index subtree)"]
    t0 = time.time()
    lru_n = range(1, 7) if ctx.quick else range(1, 9)
    plru_n = (1, 2, 4, 8) if ctx.quick else (1, 2, 4, 8, 16)
    shards = [("lru", n) for n in lru_n] + [("plru", n) for n in plru_n]
    part = pmap(policy_space, shards[::-1])
    ctx.space("policy-objects", part, t0, lru_ways=list(lru_n), plru_ways=list(plru_n), closed=True)
    # (2) set binding through the memory system
    cfgs = []
    for kind in ("wb", "wt"):
        for policy, ways in (("lru", 1), ("lru", 2), ("lru", 3), ("plru", 2), ("plru", 4)) + ((("lru", 4), ("plru", 8)) if thorough else ()):
            cfgs.append(cachebfs.Cfg(0, 0, ways, kind, policy, 0, "control", False, "base", True))
    cfgs.append(cachebfs.Cfg(1, 0, 2, "wb", "lru", 0, "control", False, "base", True))
    cfgs.append(cachebfs.Cfg(1, 1, 2, "wt", "plru", 0, "control", False, "base", True))
    for cfg in cfgs:
        res = cachebfs.explore(ctx, cfg, ("policy",), 40)
    ctx.require("cache-eviction", "cache-fill", "cache-hit")
