"""TOY programs loaded into a USED simulation (C06: what then executes; C19: what the assembler then places).

Histories on ONE ToySimulation:  load X; k whole steps; [load F (rejected);] load Y; run  — every X, Y of a small corpus (Y == X
included: the same text loaded twice), every k of a grid. Differential oracle: right after `load Y` and again after the run,
the observable state equals that of a FRESH simulation that only loaded (and ran) Y. A load never fails silently: the outcome
(accepted / rejected) must be the fresh one's, too.
"""
from __future__ import annotations

from architecture_simulator.simulation.toy_simulation import ToySimulation

from vf.adapt import toy
from vf.engine.core import Partial

TEXTS = [
    ("sum-loop-self-modifying", ".data\nn: .word 3\nacc: .word 0\n.text\nloop: LDA acc\nADD n\nSTO acc\nLDA n\nDEC\nSTO n\nBRZ end\nZRO\nBRZ loop\nend: LDA acc\n"),
    ("store-into-code", "LDA 0x003\nINC\nSTO 0x003\nLDA 0xFFF\nINC\n"),
    ("straight", "INC\nINC\nNOT\nSTO 0x800\n"),
    ("one", "DEC\n"),
    ("empty", ""),
    ("comment-only", "# nothing\n\n"),
    ("data-only", ".data\nv: .word 7, 8\n"),
    ("branch-out", "ZRO\nBRZ 0x100\nINC\n"),
]
REJECTED = ".data\nq: .word 9\n.text\nINC\nBRZ nowhere\n"
KS = (0, 1, 2, 3, 7, 99)
HORIZON = 200


def observe(sim):
    st = sim.state
    try:
        table = tuple((a, tuple(r)) for (a, _h), r, _i, _c in sim.get_memory_table_entries())
    except Exception as e:  # noqa
        table = f"{type(e).__name__}"
    return dict(snapshot=toy.snapshot(sim), max_pc=st.max_pc, done=sim.is_done(), has_instructions=sim.has_instructions(), table=table)


def load(sim, text):
    try:
        sim.load_program(text)
        return "accepted"
    except Exception as e:  # noqa
        return f"rejected ({type(e).__name__})"


def run(sim):
    n = 0
    while not sim.is_done() and n < HORIZON:
        sim.step()
        n += 1
    return n


def history(xi, yi, k, with_rejected):
    """Returns a list of (field, detail)."""
    fresh = ToySimulation()
    f_out = load(fresh, TEXTS[yi][1])
    f_loaded = observe(fresh)
    run(fresh)
    f_ran = observe(fresh)
    sim = ToySimulation()
    load(sim, TEXTS[xi][1])
    n = 0
    while n < k and not sim.is_done():
        sim.step()
        n += 1
    if with_rejected:
        load(sim, REJECTED)
    out = load(sim, TEXTS[yi][1])
    bad = []
    if out != f_out:
        return [("reload-outcome", f"load outcome {out}, on a fresh simulation {f_out}")], n
    got = observe(sim)
    if got != f_loaded:
        d = next(kk for kk in got if got[kk] != f_loaded[kk])
        bad.append(("placement-after-reload", f"right after the load, {d} = {str(got[d])[:150]}, on a fresh simulation {str(f_loaded[d])[:150]}"))
    try:
        run(sim)
    except Exception as e:  # noqa
        bad.append(("execution-after-reload", f"running the reloaded program raised {type(e).__name__}: {e}"))
        return bad, n
    got = observe(sim)
    if got != f_ran:
        d = next(kk for kk in got if got[kk] != f_ran[kk])
        bad.append(("execution-after-reload", f"after running, {d} = {str(got[d])[:150]}, on a fresh simulation {str(f_ran[d])[:150]}"))
    return bad, n


def name(xi, yi, k, rej):
    return f"load {TEXTS[xi][0]}; {k} steps; " + ("load <rejected>; " if rej else "") + f"load {TEXTS[yi][0]}; run"


SIZE_TEXTS = [t for _n, t in TEXTS] + [".data\nv: .word 7\n.text\nLDA v\nSTO 0xFFF\nLDA 0xFFF\nINC\n", "ZRO\nBRZ 0xFFF\n", "LDA 4095\nADD 0xFFE\nSTO 4094\n"]


def explicit_size_case(ti):
    """A machine created with the DEFAULT size given explicitly (ToySimulation(unified_memory_size=4096)) is the default machine."""
    res = []
    for sim in (ToySimulation(), ToySimulation(unified_memory_size=4096)):
        out = load(sim, SIZE_TEXTS[ti])
        a = observe(sim)
        try:
            run(sim)
            b = observe(sim)
        except Exception as e:  # noqa
            b = f"running raised {type(e).__name__}: {e}"
        res.append((out, a, b))
    if res[0] != res[1]:
        k = next(i for i in range(3) if res[0][i] != res[1][i])
        return ("execution-after-reload" if k == 2 else "placement-after-reload",
                f"{('load outcome', 'state after loading', 'state after running')[k]} on ToySimulation(unified_memory_size=4096): {str(res[1][k])[:200]}; on ToySimulation(): {str(res[0][k])[:200]}")
    return None


def explicit_size_shard(shard):
    fields = shard
    p = Partial()
    for ti in range(len(SIZE_TEXTS)):
        p.evaluations += 1
        p.nontrivial += 1
        p.counters["default-size-given-explicitly"] += 1
        d = explicit_size_case(ti)
        if d and d[0] in fields:
            p.violation(dict(oracle="toy-explicit-size", field=d[0]), dict(kind="toy-size", ti=ti), f"{SIZE_TEXTS[ti]!r}: {d[1]}", size=(ti,))
    return p


ASM_TEXTS = SIZE_TEXTS + ["LDA 4099\nINC\nSTO 8192\nLDA 0\n", "ADD 0x1003\nSUB 65537\nOR 4096\n", ".data\nv: .word 3\n.text\nXOR 4095\nAND 8191\nSTO 4097\n"]


def assembled_case(ti):
    """A program that comes from the ASSEMBLER executes as its memory words say (the first instruction included, which is
    not fetched but handed over by the assembler): whole steps against the reference machine built from the assembled words."""
    from vf.ref.toy import ToyRef
    sim = ToySimulation()
    if load(sim, ASM_TEXTS[ti]) != "accepted":
        return None
    st = sim.state
    n = (st.max_pc + 1) if st.max_pc is not None else 0
    words = [int(st.memory.read_halfword(a)) for a in range(n)]
    data = {a: v for a, v in toy._cells(sim) if a >= n and int(v)}
    ref = ToyRef(words, {a: int(v) for a, v in data.items()}, 0)
    k = 0
    while k < HORIZON and not ref.done():
        try:
            sim.step()
        except Exception as e:  # noqa
            return f"step {k + 1} raised {type(e).__name__}: {e} (instruction word {words[ref.cur] if ref.cur < len(words) else '?':#06x})"
        ref.step()
        k += 1
        if toy.snapshot(sim) != ref.snapshot():
            return f"after step {k}: (accu, pc, ir, count, cycles, branches, memory) = {str(toy.snapshot(sim))[:160]}, reference machine on the assembled words {str(ref.snapshot())[:160]}"
    if not sim.is_done() and ref.done():
        return f"the reference machine stops after {k} steps, the simulation is not done"
    return None


def assembled_shard(shard):
    p = Partial()
    for ti in range(len(ASM_TEXTS)):
        p.evaluations += 1
        p.nontrivial += 1
        p.counters["assembled-program-executed"] += 1
        d = assembled_case(ti)
        if d:
            p.violation(dict(oracle="toy-assembled-program", field="execution"), dict(kind="toy-asm", ti=ti), f"{ASM_TEXTS[ti]!r}: {d}", size=(ti,))
    return p


def shard_fn(shard):
    xi, fields, prop = shard
    p = Partial()
    for yi in range(len(TEXTS)):
        for k in KS:
            for rej in (False, True):
                bad, n = history(xi, yi, k, rej)
                p.evaluations += 1
                p.traces += 1
                if n:
                    p.nontrivial += 1
                    p.counters["reload-into-a-used-simulation"] += 1
                if n and xi == yi:
                    p.counters["same-text-loaded-again-after-running"] += 1
                for f, d in bad:
                    if f in fields or f == "reload-outcome":
                        p.violation(dict(oracle="toy-reload", field=f), dict(kind="toy-reload", xi=xi, yi=yi, k=k, rej=rej), f"[{name(xi, yi, k, rej)}]: {d}", size=(k, xi, yi, int(rej)))
    if xi == 0:
        p.sample(dict(kind="toy-reload", xi=0, yi=0, k=3, rej=False))
    return p


def replay(case, fields):
    if case.get("kind") == "toy-asm":
        d = assembled_case(case["ti"])
        return [(dict(oracle="toy-assembled-program", field="execution"), d)] if d else []
    if case.get("kind") == "toy-size":
        d = explicit_size_case(case["ti"])
        return [(dict(oracle="toy-explicit-size", field=d[0]), d[1])] if d and d[0] in fields else []
    bad, _n = history(case["xi"], case["yi"], case["k"], case["rej"])
    return [(dict(oracle="toy-reload", field=f), f"[{name(case['xi'], case['yi'], case['k'], case['rej'])}]: {d}") for f, d in bad if f in fields or f == "reload-outcome"]


def run_part(ctx, fields):
    import time

    from vf.engine.core import pmap
    t0 = time.time()
    part = pmap(shard_fn, [(xi, tuple(fields), ctx.prop) for xi in range(len(TEXTS))])
    ctx.space("reload-into-a-used-simulation", part, t0, texts=len(TEXTS), steps_before_the_reload=list(KS),
              note="load X; k steps; [rejected load;] load Y; run — vs a fresh simulation that only loaded Y")
    ctx.require("reload-into-a-used-simulation", "same-text-loaded-again-after-running")
    t0 = time.time()
    part = pmap(explicit_size_shard, [tuple(fields)])
    ctx.space("default-size-given-explicitly", part, t0, texts=len(SIZE_TEXTS))
    ctx.require("default-size-given-explicitly")
    if "execution-after-reload" in fields:
        t0 = time.time()
        part = pmap(assembled_shard, [0])
        ctx.space("assembled-programs-executed", part, t0, texts=len(ASM_TEXTS), note="incl. operands of 4096 and more, which the assembler reduces modulo 4096")
        ctx.require("assembled-program-executed")
