"""TOY programs loaded into a USED simulation (C06: what then executes; C19: what the assembler then places).

Histories on ONE ToySimulation:  load X; k whole steps; [load F (rejected);] load Y; run  — every X, Y of a small corpus (Y == X
included: the same text loaded twice), every k of a grid. Differential oracle: right after `load Y` and again after the run,
the observable state equals that of a FRESH simulation that only loaded (and ran) Y. A load never fails silently: the outcome
(accepted / rejected) must be the fresh one's, too.
"""
from __future__ import annotations

from architecture_simulator.simulation.toy_simulation import ToySimulation

from vf.adapt import toy
from vf.engine.core import Partial

TEXTS = [
    ("sum-loop-self-modifying", ".data\nn: .word 3\nacc: .word 0\n.text\nloop: LDA acc\nADD n\nSTO acc\nLDA n\nDEC\nSTO n\nBRZ end\nZRO\nBRZ loop\nend: LDA acc\n"),
    ("store-into-code", "LDA 0x003\nINC\nSTO 0x003\nLDA 0xFFF\nINC\n"),
    ("straight", "INC\nINC\nNOT\nSTO 0x800\n"),
    ("one", "DEC\n"),
    ("empty", ""),
    ("comment-only", "# nothing\n\n"),
    ("data-only", ".data\nv: .word 7, 8\n"),
    ("branch-out", "ZRO\nBRZ 0x100\nINC\n"),
]
REJECTED = ".data\nq: .word 9\n.text\nINC\nBRZ nowhere\n"
KS = (0, 1, 2, 3, 7, 99)
HORIZON = 200


def observe(sim):
    st = sim.state
    try:
        table = tuple((a, tuple(r)) for (a, _h), r, _i, _c in sim.get_memory_table_entries())
    except Exception as e:  # noqa
        table = f"{type(e).__name__}"
    return dict(snapshot=toy.snapshot(sim), max_pc=st.max_pc, done=sim.is_done(), has_instructions=sim.has_instructions(), table=table)


def load(sim, text):
    try:
        sim.load_program(text)
        return "accepted"
    except Exception as e:  # noqa
        return f"rejected ({type(e).__name__})"


def run(sim):
    n = 0
    while not sim.is_done() and n < HORIZON:
        sim.step()
        n += 1
    return n


def history(xi, yi, k, with_rejected):
    """Returns a list of (field, detail)."""
    fresh = ToySimulation()
    f_out = load(fresh, TEXTS[yi][1])
    f_loaded = observe(fresh)
    run(fresh)
    f_ran = observe(fresh)
    sim = ToySimulation()
    load(sim, TEXTS[xi][1])
    n = 0
    while n < k and not sim.is_done():
        sim.step()
        n += 1
    if with_rejected:
        load(sim, REJECTED)
    out = load(sim, TEXTS[yi][1])
    bad = []
    if out != f_out:
        return [("reload-outcome", f"load outcome {out}, on a fresh simulation {f_out}")], n
    got = observe(sim)
    if got != f_loaded:
        d = next(kk for kk in got if got[kk] != f_loaded[kk])
        bad.append(("placement-after-reload", f"right after the load, {d} = {str(got[d])[:150]}, on a fresh simulation {str(f_loaded[d])[:150]}"))
    try:
        run(sim)
    except Exception as e:  # noqa
        bad.append(("execution-after-reload", f"running the reloaded program raised {type(e).__name__}: {e}"))
        return bad, n
    got = observe(sim)
    if got != f_ran:
        d = next(kk for kk in got if got[kk] != f_ran[kk])
        bad.append(("execution-after-reload", f"after running, {d} = {str(got[d])[:150]}, on a fresh simulation {str(f_ran[d])[:150]}"))
    return bad, n


def name(xi, yi, k, rej):
    return f"load {TEXTS[xi][0]}; {k} steps; " + ("load <rejected>; " if rej else "") + f"load {TEXTS[yi][0]}; run"


def shard_fn(shard):
    xi, fields, prop = shard
    p = Partial()
    for yi in range(len(TEXTS)):
        for k in KS:
            for rej in (False, True):
                bad, n = history(xi, yi, k, rej)
                p.evaluations += 1
                p.traces += 1
                if n:
                    p.nontrivial += 1
                    p.counters["reload-into-a-used-simulation"] += 1
                if n and xi == yi:
                    p.counters["same-text-loaded-again-after-running"] += 1
                for f, d in bad:
                    if f in fields or f == "reload-outcome":
                        p.violation(dict(oracle="toy-reload", field=f), dict(kind="toy-reload", xi=xi, yi=yi, k=k, rej=rej), f"[{name(xi, yi, k, rej)}]: {d}", size=(k, xi, yi, int(rej)))
    if xi == 0:
        p.sample(dict(kind="toy-reload", xi=0, yi=0, k=3, rej=False))
    return p


def replay(case, fields):
    bad, _n = history(case["xi"], case["yi"], case["k"], case["rej"])
    return [(dict(oracle="toy-reload", field=f), f"[{name(case['xi'], case['yi'], case['k'], case['rej'])}]: {d}") for f, d in bad if f in fields or f == "reload-outcome"]


def run_part(ctx, fields):
    import time

    from vf.engine.core import pmap
    t0 = time.time()
    part = pmap(shard_fn, [(xi, tuple(fields), ctx.prop) for xi in range(len(TEXTS))])
    ctx.space("reload-into-a-used-simulation", part, t0, texts=len(TEXTS), steps_before_the_reload=list(KS),
              note="load X; k steps; [rejected load;] load Y; run — vs a fresh simulation that only loaded Y")
    ctx.require("reload-into-a-used-simulation", "same-text-loaded-again-after-running")
