"""Configuration sets for the cache explorations (DESIGN C03/C09/C12)."""
from __future__ import annotations

from vf.checks.cachebfs import Cfg
from vf.engine.core import rot

# (index bits, block bits, ways)
G = [(0, 0, 1), (0, 0, 2), (1, 0, 1), (0, 1, 1), (1, 1, 2), (0, 0, 4), (0, 2, 1), (2, 0, 1)]
G_MULTISET = [(1, 0, 1), (2, 0, 1), (1, 0, 2)]
G_MULTIWORD_MULTIWAY = [(0, 1, 2), (1, 1, 2)]


def policies_for(ways):
    return ("lru", "plru") if ways & (ways - 1) == 0 else ("lru",)


def quick_configs(seed):
    """All four {wb,wt}x{lru,plru} combinations, each on one multi-set geometry and one geometry with
    more than one word per block and more than one way; the seed rotates which geometry of each kind."""
    out = []
    k = 0
    for kind in ("wb", "wt"):
        for policy in ("lru", "plru"):
            g1 = rot(G_MULTISET, seed + k)[0]
            g2 = rot(G_MULTIWORD_MULTIWAY, seed + k)[0]
            out.append((g1, kind, policy))
            out.append((g2, kind, policy))
            k += 1
    return out


def thorough_configs():
    out = []
    for g in G + [(0, 1, 2)]:
        for kind in ("wb", "wt"):
            for policy in policies_for(g[2]):
                out.append((g, kind, policy))
    return out
