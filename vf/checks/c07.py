"""C07 — five-stage retire times and cycle count follow the documented schedule (ENUM + BFS fixed point)."""
from __future__ import annotations

import itertools
import time

from vf.adapt import rv
from vf.checks import alpha, pipecmp
from vf.checks.c02 import program_shards, templates
from vf.engine.core import Partial, pmap
from vf.ref import rv32

ID = "C07"
LEVEL = "model_checking"
BASE = rv32.MINADDR
WANT = ("cycle", "retire", "final", "stalls")
ORACLE = "documented-schedule"


def sig(f, oracle=ORACLE):
    return dict(oracle=oracle, field=f)


def prog_shard(shard, HAZARD=True, ORACLE=ORACLE):
    if len(shard) == 9:
        HAZARD, ORACLE = shard[7:]
        shard = shard[:7]
    seed, big, length, firsts, nstates, steps, only_extra = shard
    H = alpha.hazard_alphabet(seed, big)
    states = alpha.init_states(seed, nstates)
    p = Partial()
    nf = len(firsts)
    maxc = 8 * steps + 16
    for tail in itertools.product(range(len(H)), repeat=length - nf):
        idx = tuple(firsts) + tail
        if only_extra and all(i < 18 for i in idx):
            continue
        prog = [H[i] for i in idx]
        for si, st in enumerate(states):
            ref, bad = pipecmp.lockstep(prog, st["regs"], st["words"], maxc, HAZARD, WANT)
            p.evaluations += 1
            p.traces += 1
            p.transitions += ref.cyc
            if ref.events:
                p.nontrivial += 1
                for e in ref.events:
                    p.counters[e] += 1
            for f, d in bad:
                p.violation(sig(f, ORACLE), pipecmp.case_of(prog, st["regs"], st["words"], maxc, HAZARD),
                            f"[{rv.prog_text(prog)}] init#{si} hazard_detection={HAZARD}: {d}", size=(length, idx, si))
    if firsts in ((0,), (0, 0)):
        p.sample(pipecmp.case_of([H[(5 * i + 2) % len(H)] for i in range(length)], states[0]["regs"], states[0]["words"], maxc, HAZARD))
    return p


def template_shard(shard, HAZARD=True, ORACLE=ORACLE):
    if len(shard) == 8:
        HAZARD, ORACLE = shard[6:]
        shard = shard[:6]
    seed, thorough, part, parts, nstates, steps = shard
    states = alpha.init_states(seed, nstates)
    p = Partial()
    maxc = 8 * steps + 16
    for i, (name, prog) in enumerate(templates(seed, thorough)):
        if i % parts != part:
            continue
        for si, st in enumerate(states):
            ref, bad = pipecmp.lockstep(prog, st["regs"], st["words"], maxc, HAZARD, WANT)
            p.evaluations += 1
            p.traces += 1
            p.transitions += ref.cyc
            p.nontrivial += 1
            for f, d in bad:
                p.violation(sig(f, ORACLE), pipecmp.case_of(prog, st["regs"], st["words"], maxc, HAZARD),
                            f"template {name} [{rv.prog_text(prog)}] init#{si} hazard_detection={HAZARD}: {d}", size=(len(prog), i, si))
    return p


def independent_instructions(seed):
    """One representative per instruction class, mutually independent when every instance gets its own registers."""
    return ["add", "sub", "mul", "div", "sltu", "addi", "xori", "slli", "srai", "lui", "auipc", "lw", "lbu", "sw", "sb", "beq-nt", "bge-nt"]


def straight_shard(shard):
    """n + 4 law: straight-line programs of n mutually independent instructions of every class."""
    seed, part, parts = shard
    p = Partial()
    classes = independent_instructions(seed)
    k = 0
    for n in range(1, 17):
        for c0 in range(len(classes)):
            for stride in (0, 1, 3):
                k += 1
                if k % parts != part:
                    continue
                prog = []
                for i in range(n):
                    cls = classes[(c0 + i * stride) % len(classes)]
                    rd = 1 + (i % 14)  # destinations x1..x14 — never read: sources are x0, x29, x30, x31
                    if cls in ("add", "sub", "mul", "div", "sltu"):
                        prog.append((cls, rd, 29, 30, 0))
                    elif cls in ("addi", "xori", "slli", "srai"):
                        prog.append((cls, rd, 29, 0, 3))
                    elif cls in ("lui", "auipc"):
                        prog.append((cls, rd, 0, 0, 5))
                    elif cls in ("lw", "lbu"):
                        prog.append((cls, rd, 31, 0, 4))
                    elif cls in ("sw", "sb"):
                        prog.append((cls, 0, 31, 30, 8))
                    elif cls == "beq-nt":
                        prog.append(("beq", 0, 29, 0, 8))
                    else:
                        prog.append(("bge", 0, 0, 29, 8))
                regs = {29: 9, 30: 4, 31: BASE}
                words = {BASE + 4: 0x01020304}
                ref, bad = pipecmp.lockstep(prog, regs, words, n + 40, True, WANT)
                p.evaluations += 1
                p.traces += 1
                p.transitions += ref.cyc
                p.nontrivial += 1
                if ref.stalls or "flush" in ref.events:
                    from vf.engine.core import InternalError
                    raise InternalError(f"straight-line program is not independent: {prog}")
                # independent of the reference machine: the property states n + 4 literally
                sim = rv.make_sim(rv.FIVE, prog, regs, words)
                res = rv.run(sim, n + 40)
                if res.cycles != n + 4 or not res.done:
                    bad.append(("n+4", f"{n} independent instructions took {res.cycles} cycles (done={res.done}), documented n+4 = {n + 4}"))
                if [c for _a, c in res.retire_cycles] != list(range(5, n + 5)):
                    bad.append(("n+4", f"retire cycles {[c for _a, c in res.retire_cycles][:8]}..., documented 5..{n + 4}"))
                for f, d in bad:
                    p.violation(sig(f), pipecmp.case_of(prog, regs, words, n + 40, True), f"[{rv.prog_text(prog)}]: {d}", size=(n, k))
                if k < 3:
                    p.sample(pipecmp.case_of(prog, regs, words, n + 40, True))
    return p


def long_programs(seed):
    """Programs that run for hundreds or thousands of cycles (what a bound on the program LENGTH never reaches): long
    straight-line code and counted loops whose body stalls, flushes, stores, calls and prints."""
    r1, r2, r3 = alpha.regs_for_seed(seed)
    out = []
    for n in (64, 255, 256, 257, 600, 1100):
        prog = []
        for i in range(n):
            rd = 1 + (i % 14)
            prog.append([("add", rd, 29, 30, 0), ("addi", rd, 29, 0, 3), ("lw", rd, 31, 0, 4), ("sw", 0, 31, 30, 8), ("lui", rd, 0, 0, 5), ("beq", 0, 29, 0, 8)][i % 6])
        out.append((f"straight-{n}", prog, n))
    for iters in (40, 130, 300):
        out.append((f"loop-x{iters}", [("addi", 25, 0, 0, iters), ("addi", r1, r1, 0, 1), ("addi", 25, 25, 0, -1), ("bne", 0, 25, 0, -8), ("add", r2, r1, r1, 0)], None))
        out.append((f"loop-load-store-x{iters}", [("addi", 25, 0, 0, iters), ("lw", r1, 31, 0, 4), ("addi", r1, r1, 0, 1), ("sw", 0, 31, r1, 4), ("addi", 25, 25, 0, -1),
                                                   ("bne", 0, 25, 0, -16), ("lw", r2, 31, 0, 4)], None))
        out.append((f"loop-call-print-x{iters}", [("addi", 25, 0, 0, iters), ("addi", 17, 0, 0, 1), ("jal", 27, 0, 0, 20), ("addi", 25, 25, 0, -1), ("bne", 0, 25, 0, -8),
                                                   ("addi", 17, 0, 0, 93), ("ecall", 0, 0, 0, 0), ("add", 10, 25, 0, 0), ("ecall", 0, 0, 0, 0), ("jalr", 0, 27, 0, 0)], None))
    return out


LONG_REGS = {29: 9, 30: 4, 31: BASE}
LONG_WORDS = {BASE + 4: 0x01020304}


def regsweep_shard(shard):
    """The dependency templates of C02 through every register x1..x31, cycle by cycle against the reference machine."""
    from vf.checks import c02
    part, parts, hazard, oracle = shard
    p = Partial()
    for i, (reg, k, prog) in enumerate(c02.regsweep_programs()):
        if i % parts != part:
            continue
        # three ways of getting the simulation: the usual constructor; a state built on its own and handed over; the usual
        # constructor with a second five-stage simulation of the opposite hazard switch created afterwards
        for style in ("plain", "via-state", "neighbour"):
            ref, bad = pipecmp.lockstep(prog, c02.REGSWEEP_REGS, c02.REGSWEEP_WORDS, 60, hazard, WANT, style=style)
            p.evaluations += 1
            p.traces += 1
            p.transitions += ref.cyc
            p.nontrivial += 1
            p.counters["dependency-through-every-register"] += 1
            p.counters["simulation-built-" + style] += 1
            for f, d in bad:
                c = pipecmp.case_of(prog, c02.REGSWEEP_REGS, c02.REGSWEEP_WORDS, 60, hazard)
                c["style"] = style
                p.violation(dict(oracle=oracle, field=f, style=style), c, f"[{rv.prog_text(prog)}] hazard_detection={hazard}, simulation built '{style}': {d}", size=(len(prog), reg, k))
    return p


def long_shard(shard):
    seed, k, hazard, oracle = shard
    name, prog, n = long_programs(seed)[k]
    p = Partial()
    ref, bad = pipecmp.lockstep(prog, LONG_REGS, LONG_WORDS, 20000, hazard, WANT)
    p.evaluations += 1
    p.traces += 1
    p.transitions += ref.cyc
    p.nontrivial += 1
    if ref.cyc > 256:
        p.counters["run-longer-than-256-cycles"] += 1
    if ref.cyc > 2000:
        p.counters["run-longer-than-2000-cycles"] += 1
    if n is not None and hazard:
        sim = rv.make_sim(rv.FIVE, prog, LONG_REGS, LONG_WORDS)
        res = rv.run(sim, n + 40)
        if res.cycles != n + 4 or not res.done:
            bad.append(("n+4", f"{n} independent instructions took {res.cycles} cycles (done={res.done}), documented n+4 = {n + 4}"))
    for f, d in bad:
        p.violation(dict(oracle=oracle, field=f), pipecmp.case_of(prog, LONG_REGS, LONG_WORDS, 20000, hazard), f"{name} [{rv.prog_text(prog[:8])}{' ...' if len(prog) > 8 else ''}]: {d}", size=(len(prog), k))
    return p


def replay(case):
    if case.get("kind") in ("penalty", "penalty-loaded"):
        from vf.checks import c07_penalty
        return c07_penalty.replay(case)
    prog, regs, words, maxc, hazard = pipecmp.case_args(case)
    _ref, bad = pipecmp.lockstep(prog, regs, words, maxc, hazard, WANT, style=case.get("style", "plain"))
    res = [(sig(f), f"[{rv.prog_text(prog)}]: {d}") for f, d in bad]
    if not res:
        # fixed-point cases compare (address, cycle) retirements only; lockstep covers those as well
        pass
    return res


def run(ctx):
    seed, thorough = ctx.seed, not ctx.quick
    ctx.rule = ("Model = reference stage-occupancy machine (DESIGN appendix A). (1) every program up to a length bound over H18/H30 "
                "and the loop/call/ecall templates, executed cycle by cycle on the real pipeline and on the model: cycle counter +1 per "
                "step, same retirement (address or none) in every cycle, same total cycles, stall counter, final state; (2) n+4 law on "
                "straight-line programs of 1..16 independent instructions; (3) control-state fixed point over the forward-only alphabet F: "
                "BFS over program prefixes to closure, every edge executed on the implementation; (4) penalty clause with caches. "
                "states = distinct (model, implementation) control states of (3); transitions = prefixes executed in (3) + cycles simulated "
                "in (1),(2),(4); every model trace is replayed on the implementation (traces_validated_against_impl). Non-trivial = the "
                "model run has a stall, drain, flush, squash, print, exit or fault.")
    ctx.assumptions += [
        "'held until older instructions have left the memory stage' is realised as: an ecall entering EX while MEM or WB is occupied waits a fixed two extra cycles (calibrated against the unchanged tree)",
        "fixed point: with the data-constant, forward-only alphabet F the future of a paused run depends only on the control key",
        "hash compaction of control states with BLAKE2b-128",
    ]
    ctx.require("stall", "drain", "flush", "squash", "stall-cancelled", "exit-in-ex", "fault", "fp-stall", "fp-drain", "fp-flush")
    steps = 24 if ctx.quick else 40
    nstates = 2 if ctx.quick else 4
    plan = [(False, L) for L in range(1, (4 if ctx.quick else 5) + 1)]
    plan += [(True, L) for L in range(1, (3 if ctx.quick else 4) + 1)]
    for big, L in plan:
        t0 = time.time()
        part = pmap(prog_shard, program_shards(seed, big, L, nstates, steps))
        ctx.space(f"programs-{'H30' if big else 'H18'}-len{L}", part, t0, length=L, init_states=nstates, cycle_horizon=8 * steps + 16)
    t0 = time.time()
    part = pmap(template_shard, [(seed, thorough, i, 64, nstates, 60) for i in range(64)])
    ctx.space("templates", part, t0)
    t0 = time.time()
    part = pmap(straight_shard, [(seed, i, 32) for i in range(32)])
    ctx.space("straight-line-n+4", part, t0)
    t0 = time.time()
    part = pmap(long_shard, [(seed, k, True, ORACLE) for k in range(len(long_programs(seed)))])
    ctx.space("long-runs", part, t0, programs=[n for n, _p, _k in long_programs(seed)])
    ctx.require("run-longer-than-256-cycles", "run-longer-than-2000-cycles")
    t0 = time.time()
    part = pmap(regsweep_shard, [(i, 16, True, ORACLE) for i in range(16)])
    ctx.space("dependencies-through-every-register", part, t0, registers="x1..x31", templates=12)
    ctx.require("dependency-through-every-register")
    pipecmp.fixed_point(ctx, seed, False, True, 12, "fixed-point-F12")
    if thorough:
        pipecmp.fixed_point(ctx, seed, True, True, 12, "fixed-point-F16")
    from vf.checks import c07_penalty
    c07_penalty.run_part(ctx)
