"""C16 — inspection is pure: read-only queries never change later behaviour (deviation-bounded exploration)."""
from __future__ import annotations

import itertools
import time

from architecture_simulator.isa.parser_exceptions import ParserException
from architecture_simulator.simulation.riscv_simulation import RiscvSimulation
from architecture_simulator.simulation.runtime_errors import InstructionExecutionException
from architecture_simulator.simulation.toy_simulation import ToySimulation

from vf.adapt import inspect as insp
from vf.adapt import rv
from vf.checks import freshcmp
from vf.engine.canon import canon
from vf.engine.core import Partial, digest, pmap

ID = "C16"
LEVEL = "exploration"
MAXSTEPS = 60

RV_CORPUS = [
    ("loads-stores", ".data\na: .word 1, 2, 3, 4\nb: .byte 5, 6\n.text\nla x3, a\nlw x1, 0(x3)\nlw x2, 4(x3)\nadd x4, x1, x2\nsw x4, 8(x3)\nlb x5, b\nsb x5, 13(x3)\nlw x6, 12(x3)\n"),
    ("conflict-misses", "lui x3, 4\nsw x3, 0(x3)\nlw x1, 64(x3)\nsw x1, 128(x3)\nlw x2, 0(x3)\nlw x4, 64(x3)\nsh x2, 2(x3)\nlbu x5, 3(x3)\n"),
    ("ecalls", ".data\ns: .string \"hi\"\n.text\naddi a7, x0, 1\naddi a0, x0, -3\necall\nla a0, s\naddi a7, x0, 4\necall\naddi a7, x0, 93\naddi a0, x0, 2\necall\naddi x1, x0, 1\n"),
    ("loop", "addi x1, x0, 3\nloop: addi x2, x2, 2\naddi x1, x1, -1\nbne x1, x0, loop\nadd x3, x2, x2\n"),
    ("call-return", "jal x1, f\naddi x5, x0, 5\njal x0, end\nf: addi x6, x0, 6\njalr x0, x1, 0\nend: addi x7, x0, 7\n"),
    ("fault", "addi x1, x0, 1\nlui x3, 4\nlw x2, 0(x3)\nlw x2, 0(x0)\naddi x4, x0, 4\n"),
    ("hazards", "addi x1, x0, 1\nadd x2, x1, x1\nadd x3, x2, x1\nlui x9, 4\nsw x3, 0(x9)\nlw x4, 0(x9)\nadd x5, x4, x4\nbeq x5, x0, 8\nmul x6, x5, x5\n"),
    ("store-load-same-block", "lui x3, 4\naddi x1, x0, 0x7f\nsb x1, 1(x3)\nlh x2, 0(x3)\nsw x2, 4(x3)\nlw x4, 4(x3)\nlw x5, 260(x3)\nlw x6, 4(x3)\n"),
    ("empty", ""),
    ("misaligned-with-cache", "lui x3, 4\nsw x3, 0(x3)\nlw x1, 1(x3)\naddi x2, x0, 2\n"),
    # stores that spill into the next word (legal without a data cache) and stores through a negative effective address
    ("spilling-stores", "lui x3, 4\nli x1, 0x11223344\nsw x1, 0(x3)\nsw x1, 4(x3)\nsw x1, 2(x3)\nsh x1, 7(x3)\nsw x1, 9(x3)\nsb x1, 12(x3)\nsw x1, -4(x0)\nsw x3, -4(x0)\nlw x5, 4(x3)\n"),
    # aligned loads and stores whose effective address is negative as a plain integer sum (wraps to the top of memory)
    ("negative-addresses", "lui x3, 4\nsw x3, -4(x0)\nlw x1, -4(x0)\nsh x1, -8(x0)\nlbu x2, -1(x0)\naddi x4, x0, -16\nsw x1, 4(x4)\nlw x5, -12(x0)\nsw x1, 0(x3)\n"),
    # four conflicting blocks in one set, then hits in the middle of the recency order
    ("middle-hits", "lui x3, 4\nlw x1, 0(x3)\nlw x2, 64(x3)\nlw x4, 128(x3)\nlw x5, 192(x3)\nlw x6, 64(x3)\nlw x7, 128(x3)\nlw x8, 0(x3)\nsw x8, 64(x3)\nlw x9, 256(x3)\nlw x10, 64(x3)\n"),
]
# programs with a script of later loads: (first text, ((k, text loaded after k steps), ...)); a rejected load is swallowed
RV_RELOADS = [
    ("reload-empty", ("addi x1, x0, 1\naddi x2, x1, 1\nadd x3, x2, x1\nsw x3, 0(x0)\n", ((2, ""),))),
    ("reload-rejected-then-other", (".data\na: .word 5\n.text\nlw x1, a\naddi x1, x1, 1\nsw x1, a, x2\n", ((2, "addi x1, x0, 1\nbeq x0, x0, nowhere\n"), (2, "lui x3, 4\nlw x4, 0(x3)\naddi x5, x4, 2\n")))),
    ("reload-same", ("lui x3, 4\nsw x3, 0(x3)\nlw x1, 0(x3)\nadd x2, x1, x1\n", ((3, "lui x3, 4\nsw x3, 0(x3)\nlw x1, 0(x3)\nadd x2, x1, x1\n"),))),
]
TOY_RELOADS = [
    ("reload-empty", ("INC\nINC\nSTO 100\nDEC\n", ((2, ""),))),
    ("reload-rejected-then-other", (".data\nv: .word 3\n.text\nLDA v\nINC\nSTO v\n", ((2, "LDA nowhere\n"), (2, "ZRO\nBRZ e\nINC\ne:\nDEC\n")))),
]
RV_MORE = [
    ("div-rem", "addi x1, x0, -7\naddi x2, x0, 2\ndiv x3, x1, x2\nrem x4, x1, x2\ndivu x5, x1, x0\n"),
    ("long-straight", "\n".join(f"addi x{1 + i % 9}, x{(i * 7) % 10}, {i}" for i in range(20)) + "\n"),
    ("print-all", "addi a0, x0, 65\n" + "".join(f"addi a7, x0, {c}\necall\n" for c in (1, 11, 34, 35, 36, 2))),
    ("backward-jal", "addi x1, x0, 2\nl: addi x1, x1, -1\nbeq x1, x0, 8\njal x0, l\naddi x2, x0, 9\n"),
]
# programs too expensive for the deviation space; used by the inspected-vs-uninspected pairs only
RV_HEAVY = [
    # more than 10 000 characters of console output (a 3 400-character string printed four times)
    ("long-output", ".data\ns: .string \"" + "0123456789abcdefghijklmnopqrstuvwxyzABCDEFGHIJKLMNOPQRSTUVWXYZ+-=/" * 52 + "\"\n.text\nla a0, s\naddi a7, x0, 4\naddi x5, x0, 4\nloop: ecall\naddi x5, x5, -1\nbne x5, x0, loop\naddi x6, x0, 1\n"),
]
CACHES = {
    "none": (None, None),
    "wb-both": (rv.cache_opts(1, 0, 1, "wb", "lru", 2), rv.cache_opts(0, 1, 2, "wb", "plru", 1)),
    "wt-both": (rv.cache_opts(0, 1, 2, "wt", "plru", 3), rv.cache_opts(1, 0, 1, "wb", "lru", 2)),
    "wb-assoc": (rv.cache_opts(0, 0, 4, "wb", "plru", 1), rv.cache_opts(0, 0, 2, "wb", "lru", 0)),
    "lru4": (rv.cache_opts(0, 0, 4, "wb", "lru", 2), rv.cache_opts(0, 1, 4, "wb", "lru", 1)),
    "plru-sets": (rv.cache_opts(1, 0, 2, "wb", "plru", 1), rv.cache_opts(1, 1, 2, "wb", "plru", 0)),
    "wt-lru3": (rv.cache_opts(0, 1, 3, "wt", "lru", 1), rv.cache_opts(1, 0, 3, "wb", "lru", 0)),
}
TOY_CORPUS = [
    ("sum", ".data\nn: .word 3\nr: .word 0\n.text\nLDA n\nBRZ end\nloop:\nLDA r\nADD n\nSTO r\nLDA n\nDEC\nSTO n\nBRZ end\nZRO\nBRZ loop\nend:\n"),
    ("self-modifying", ".data\nt: .word 3, 4\nv: .word 0\n.text\nLDA m\nINC\nSTO m\nm:\nLDA t\nSTO v\n"),
    ("logic", ".data\na: .word 0x0F0F\n.text\nLDA a\nNOT\nXOR a\nAND a\nOR a\nSUB a\n"),
    ("branch-out", "ZRO\nBRZ 0x200\nINC\n"),
    ("empty", ""),
    ("nops", "NOP\nNOP\nINC\nDEC\n"),
    # words that cannot be written in assembly (operand-less opcodes with address bits set) stored into the code and executed back to back
    ("noncanonical-words", ".data\na: .word 0x9001\nb: .word 0x9002\nc: .word 0xA003\n.text\nLDA a\nSTO s1\nLDA b\nSTO s2\nLDA c\nSTO s3\ns1: NOP\ns2: NOP\ns3: NOP\nINC\n"),
]


def make(kind, text, mode, cache):
    if kind == "toy":
        sim = ToySimulation()
    else:
        d, i = CACHES[cache]
        kw = {}
        if d is not None:
            kw["data_cache"] = d
        if i is not None:
            kw["instruction_cache"] = i
        sim = RiscvSimulation(mode=mode.replace("-nohazard", ""), detect_data_hazards=not mode.endswith("-nohazard"), **kw)
    sim.load_program(text[0] if isinstance(text, tuple) else text)
    return sim


def reload(sim, text):
    try:
        sim.load_program(text)
    except ParserException:
        pass


def advance(sim, kind, mode):
    """One step (or one half cycle for TOY in half-cycle mode). Returns False when the run is over."""
    if sim.is_done():
        return False
    try:
        if kind == "toy" and mode == "half":
            sim.single_step()
        else:
            sim.step()
    except InstructionExecutionException:
        return False
    return True


def observe(sim):
    """Everything a user can observe: the result of every inspection function (registers, memories, caches, statistics,
    visualisation lists, metrics text, output, exit code, done, has-instructions)."""
    funcs = insp.functions(sim)
    return tuple((nm, canon(f())) for nm, f in funcs.items())


def run_to(kind, text, mode, cache, schedule, stop, only=None):
    """Run with the inspection calls of `schedule` ({step index: [function names]}, 0 = before the first step) and stop
    after `stop` steps (None = run to the end). Returns (steps taken, observation at the stop point, raw-state digest)."""
    sim = make(kind, text, mode, cache)
    funcs = insp.functions(sim)
    loads = list(text[1]) if isinstance(text, tuple) else []
    n = 0
    since = 0  # steps since the last load
    while True:
        for name in schedule.get(n, ()):
            funcs[name]()
        if (stop is not None and n >= stop) or n >= MAXSTEPS:
            break
        if loads and (since >= loads[0][0] or sim.is_done()):
            reload(sim, loads.pop(0)[1])  # one "step" of the history is the load of the next program of the script
            since = 0
        elif not advance(sim, kind, mode):
            break
        else:
            since += 1
        n += 1
    if only is not None:
        return n, ((only, canon(funcs[only]())),), None
    raw = digest(insp.state_canon(sim))
    return n, observe(sim), raw


def clean_baseline(kind, text, mode, cache, stop, names):
    """The run WITHOUT inspection calls, observed at `stop`: one separate run per inspection function, so that no
    answer of the baseline has any inspection call behind it (not even the probe's own earlier calls)."""
    n, _obs, raw = run_to(kind, text, mode, cache, {}, stop)
    obs = []
    for nm in names:
        _n, one, _r = run_to(kind, text, mode, cache, {}, stop, only=nm)
        obs.append(one[0])
    return n, tuple(obs), raw


def shard_fn(shard):
    kind, pname, text, mode, cache, bound, part, parts = shard
    p = Partial()
    names = list(insp.functions(make(kind, text, mode, cache)))
    nsteps, base_final, base_raw = clean_baseline(kind, text, mode, cache, None, names)
    tag = f"{kind}/{pname}/{mode}/{cache}"
    probes = {}

    def baseline(j):
        if j not in probes:
            probes[j] = clean_baseline(kind, text, mode, cache, j, names)
        return probes[j]

    def run_dev(schedule, desc, size, last):
        """The deviated run is probed (all inspection functions) in the step of its last deviation, one step after it and at the end, and
        compared with the uninspected run probed at the same points."""
        bad = None
        for stop in sorted({min(last, nsteps), min(last + 1, nsteps), None}, key=lambda x: (x is None, x)):
            n, obs, raw = run_to(kind, text, mode, cache, schedule, stop)
            bn, bobs, braw = baseline(stop) if stop is not None else (nsteps, base_final, base_raw)
            p.evaluations += 1
            if n != bn:
                bad = f"run length changed: {n} steps instead of {bn}"
            elif obs != bobs:
                k = next(nm for (nm, a), (_n2, b) in zip(obs, bobs) if a != b)
                bad = f"{k} {'at the end' if stop is None else 'after step ' + str(stop)} differs from the run without inspection calls"
            elif raw != braw:
                # internal state differs although nothing observable does (e.g. a filled representation cache): not a violation
                p.counters["internal-state-differs-observables-equal"] += 1
            if bad:
                break
        if nsteps > 1:
            p.nontrivial += 1
        if bad:
            p.violation(dict(oracle="inspection-purity", field="later-result-changed"),
                        dict(kind="inspect", arch=kind, program=pname, mode=mode, cache=cache, schedule={str(k): v for k, v in schedule.items()}, last=last),
                        f"{tag}: {desc}: {bad}", size=size)

    # bound 1: one function, called once or twice, after every step index
    for i in range(nsteps + 1):
        if i % parts != part:
            continue
        for name in names:
            for k in (1, 2):
                run_dev({i: [name] * k}, f"{name} x{k} after step {i}", (1, i, name, k), i)
    # saturated schedule up to step i (what the GUI does), probed one step later, for every i; and over the whole run
    for i in range(nsteps + 1):
        if i % parts != part:
            continue
        run_dev({k: [nm for nm in names for _ in (0, 1)] for k in range(i + 1)}, f"every function twice after every step up to step {i}", (3, i), i)
    if part == 0:
        p.counters["saturated"] += 1
    if bound >= 2:
        # bound 2: two different functions at two (possibly equal) step indices, coarse step grid
        grid = sorted(set(range(0, nsteps + 1, max(1, nsteps // 6))) | {nsteps})
        for gi, (i, j) in enumerate(itertools.combinations_with_replacement(grid, 2)):
            if gi % parts != part:
                continue
            for a, b in itertools.permutations(names, 2):
                sched = {i: [a]}
                sched.setdefault(j, [])
                sched[j] = sched[j] + [b]
                run_dev(sched, f"{a} after step {i}, {b} after step {j}", (2, i, j, a, b), j)
        p.counters["pairs"] += 1
    p.sample(dict(kind="inspect", arch=kind, program=pname, mode=mode, cache=cache, schedule={"2": [names[1], names[1]]}))
    return p


def fresh_probe(kind, pname, mode, cache, upto, stop):
    """Runs in a pristine interpreter (vf.engine.fresh): the program with every inspection function called after every
    step up to step `upto` (-1: none), stopped after `stop` steps, then observed with all inspection functions."""
    text = dict(TOY_CORPUS + TOY_RELOADS if kind == "toy" else RV_CORPUS + RV_MORE + RV_RELOADS + RV_HEAVY)[pname]
    names = list(insp.functions(make(kind, text, mode, cache)))
    n, obs, _raw = run_to(kind, text, mode, cache, {k: list(names) for k in range(upto + 1)}, stop)
    return {"steps": n, "observations": [[nm, repr(c)] for nm, c in obs]}


def fresh_items(thorough):
    """An inspection call must not leave anything behind at class or module level either: the inspected run and the
    reference run each get their own interpreter (in one process the reference's own probes would leave the same traces)."""
    out = []
    todo = [("toy", pname, mode, "none") for pname, _t in TOY_CORPUS[:4] + TOY_CORPUS[-1:] for mode in ("whole", "half")]
    todo += [("riscv", "long-output", rv.SINGLE, "none"), ("riscv", "long-output", rv.FIVE, "none")]
    todo += [("riscv", pname, mode, cache) for pname, mode, cache in (("loop", rv.FIVE, "wb-both"), ("ecalls", rv.SINGLE, "none"), ("hazards", rv.FIVE, "none"), ("loads-stores", rv.SINGLE, "wt-both"))]
    for kind, pname, mode, cache in todo:
        text = dict(TOY_CORPUS if kind == "toy" else RV_CORPUS + RV_HEAVY)[pname]
        nsteps, _o, _r = run_to(kind, text, mode, cache, {}, None)
        stops = list(range(1, nsteps + 1))
        if not thorough and len(stops) > 10 and not (kind == "toy" and mode == "half"):
            stops = sorted(set(stops[:: max(1, len(stops) // 8)]) | {nsteps, nsteps - 1})
        for stop in stops:
            out.append(("inspection-purity", f"{kind}/{pname}/{mode}/{cache}: every inspection function after every step before step {stop}, observed after step {stop}",
                        ["call", "vf.checks.c16", "fresh_probe", [kind, pname, mode, cache, -1, stop]],
                        ["call", "vf.checks.c16", "fresh_probe", [kind, pname, mode, cache, stop - 1, stop]]))
    return out


def replay(case):
    if case.get("kind") == "fresh-pair":
        return freshcmp.replay(case)
    kind, pname, mode, cache = case["arch"], case["program"], case["mode"], case["cache"]
    corpus = dict(TOY_CORPUS + TOY_RELOADS if kind == "toy" else RV_CORPUS + RV_MORE + RV_RELOADS)
    text = corpus[pname]
    schedule = {int(k): v for k, v in case["schedule"].items()}
    names = list(insp.functions(make(kind, text, mode, cache)))
    nsteps, base_final, _raw = clean_baseline(kind, text, mode, cache, None, names)
    last = case.get("last", max(schedule))
    for stop in (min(last, nsteps), min(last + 1, nsteps), None):
        n, obs, _r = run_to(kind, text, mode, cache, schedule, stop)
        bn, bobs, _br = clean_baseline(kind, text, mode, cache, stop, names)
        if n != bn or obs != bobs:
            return [(dict(oracle="inspection-purity", field="later-result-changed"), f"{kind}/{pname}/{mode}/{cache}: schedule {schedule} changes a later result")]
    return []


def run(ctx):
    thorough = not ctx.quick
    ctx.rule = ("Baseline = run without inspection calls, observed by one separate run per inspection function (no answer of the baseline has an inspection call behind it). Deviations: one inspection function called once or twice after step i, for every function x every "
                "step index (bound 1); all ordered pairs of different functions on a step grid (bound 2, thorough); plus the saturated schedule (every "
                "function twice after every step, the GUI's behaviour). Corpus: programs with loads/stores through caches, conflict misses, ecalls, a loop, "
                "a call, a fault, hazards, a misaligned access x {single-cycle, five-stage, five-stage without hazard detection} x 4 cache configurations; "
                "TOY programs stepped by whole steps and by half cycles. Oracle (observables only): every deviated run is probed with ALL inspection functions in the step of its last deviation, one step "
                "after it and at the end, and must equal the uninspected run probed at the same points; a difference in raw internal state with "
                "equal observables (say, a filled representation cache) is counted, not reported. The saturated schedule is applied up to every step index. Non-trivial = program with more than one step.")
    ctx.assumptions += ["wall-clock fields and the two timing lines of the metrics text are masked"]
    shards = []
    corpus = RV_CORPUS + RV_RELOADS + (RV_MORE if thorough else [])
    modes = [rv.SINGLE, rv.FIVE] + ([rv.FIVE + "-nohazard"] if thorough else [])
    k = ctx.seed
    for pname, text in corpus:
        for mode in modes:
            nc = len(CACHES)
            caches = list(CACHES) if thorough else [list(CACHES)[k % nc], list(CACHES)[(k + 1) % nc], list(CACHES)[(k + 3) % nc]]
            k += 1
            for cache in caches:
                parts = 4 if thorough else 1
                for part in range(parts):
                    shards.append(("riscv", pname, text, mode, cache, 2 if thorough and len(text) < 160 else 1, part, parts))
    for pname, text in TOY_CORPUS + TOY_RELOADS:
        for mode in ("whole", "half"):
            for part in range(2):
                shards.append(("toy", pname, text, mode, "none", 2 if thorough else 1, part, 2))
    t0 = time.time()
    part = pmap(shard_fn, shards)
    ctx.space("inspection-deviations", part, t0, runs=len(shards), bound=2 if thorough else 1)
    ctx.require("saturated")
    t0 = time.time()
    items = fresh_items(thorough)
    part = pmap(freshcmp.pair_shard, [items[i::32] for i in range(32) if items[i::32]])
    ctx.space("inspected-vs-uninspected-in-fresh-interpreters", part, t0, pairs=len(items),
              note="each run in its own interpreter: traces an inspection call leaves at class / module level cannot be shared with the reference run")
    ctx.require("fresh-interpreter-differential")
