"""C17 — displayed values are faithful in all four number representations (ENUM)."""
from __future__ import annotations

import time

import fixedint

from architecture_simulator.simulation.riscv_simulation import RiscvSimulation
from architecture_simulator.isa.toy.toy_instructions import ToyInstruction
from architecture_simulator.simulation.toy_simulation import ToySimulation
from architecture_simulator.util.fixedint_12 import UInt12
from architecture_simulator.util.integer_representations import get_n_bit_representations

from vf.adapt import rv
from vf.checks import alpha
from vf.engine.core import Partial, pmap
from vf.ref import fmt as F
from vf.ref.rv32 import MINADDR as BASE

ID = "C17"
LEVEL = "exploration"
U8, U16, U32 = fixedint.UInt8, fixedint.UInt16, fixedint.UInt32


def bad_reps(got, v, n):
    exp = F.fmt(v, n)
    if tuple(got) != exp:
        return f"value {v} at {n} bits shown as {tuple(got)}, expected {exp}"
    pb = F.parse_back(got, n)
    if any(x != v % (1 << n) for x in pb):
        return f"value {v} at {n} bits: strings {tuple(got)} parse back to {pb}"
    return None


def formatter_shard(shard):
    n, lo, hi, offs = shard
    p = Partial()
    for v in range(lo, hi):
        for off in offs:
            x = v + off
            got = get_n_bit_representations(x, n)
            p.evaluations += 1
            if off or v >> (n - 1):
                p.nontrivial += 1
            d = bad_reps(got, x, n)
            if d:
                p.violation(dict(oracle="formatter", n=n), dict(kind="fmt", v=x, n=n), f"get_n_bit_representations({x}, {n}): {d}", size=(n, abs(x)))
    if lo == 0:
        p.sample(dict(kind="fmt", v=hi - 1 + offs[-1], n=n))
    return p


def patterns32():
    vals = set(alpha.B32_MORE)
    for i in range(32):
        vals.add(1 << i)
        for j in range(i, 32):
            vals.add(((1 << (j - i + 1)) - 1) << i)  # run of ones from bit i to bit j
    return sorted(vals)


def formatter_misc(shard):
    p = Partial()
    cases = []
    for v in patterns32():
        for off in (0, -(1 << 32), 1 << 32, 1 << 37, -(1 << 40), -(1 << 33), -3 * (1 << 32)):
            cases.append((v + off, 32))
    for n in (1, 2, 4, 7, 8, 9, 13, 24, 31, 33, 64):
        for v in (0, 1, (1 << (n - 1)) - 1, 1 << (n - 1), (1 << n) - 1, (1 << n) - 2, 0x5555555555555555 % (1 << n), 0xAAAAAAAAAAAAAAAA % (1 << n)):
            for off in (0, -(1 << n), 1 << n, 1 << (n + 5), -(1 << (n + 1)), -3 * (1 << n), -(1 << (n + 5))):
                cases.append((v + off, n))
    for x, n in cases:
        got = get_n_bit_representations(x, n)
        p.evaluations += 1
        p.nontrivial += 1
        d = bad_reps(got, x, n)
        if d:
            p.violation(dict(oracle="formatter", n=n), dict(kind="fmt", v=x, n=n), f"get_n_bit_representations({x}, {n}): {d}", size=(n, abs(x)))
    return p


# ---- memory table ---------------------------------------------------------------------------------
def table_case(base, subset_mask, order, zero_mask):
    """Write the bytes of `subset_mask` (12 byte addresses from base) in the given order; value 0 where zero_mask says so."""
    addrs = [base + i for i in range(12) if (subset_mask >> i) & 1]
    if order == 1:
        addrs = addrs[::-1]
    elif order == 2:
        addrs = addrs[1::2] + addrs[0::2]
    sim = RiscvSimulation()
    m = sim.state.memory
    flat = {}
    for a in addrs:
        v = 0 if (zero_mask >> (a - base)) & 1 else ((a * 29 + 7) & 0xFF) or 1
        m.write_byte(a, U8(v))
        flat[a] = v
    exp = []
    for w in sorted({a & ~3 for a in flat}):
        val = sum(flat.get(w + i, 0) << (8 * i) for i in range(4))
        exp.append(((w, "0x" + format(w, "08X")), F.fmt(val, 32)))
    got = [((a, h), tuple(r)) for (a, h), r in sim.get_data_memory_entries()]
    if got != exp:
        return f"memory table {got[:3]}, expected {exp[:3]}"
    return None


def table_shard(shard):
    base, lo, hi, seed = shard
    p = Partial()
    for mask in range(lo, hi):
        for order in (0, 1, 2):
            zero_mask = 0 if order == 0 else ((mask * 0x9E5 + seed) & 0xFFF if order == 1 else mask)
            p.evaluations += 1
            if bin(mask).count("1") > 1:
                p.nontrivial += 1
            if zero_mask & mask:
                p.counters["zero-valued-written-byte"] += 1
            d = table_case(base, mask, order, zero_mask)
            if d:
                p.violation(dict(oracle="memory-table"), dict(kind="table", base=base, mask=mask, order=order, zero_mask=zero_mask),
                            f"bytes {mask:012b} from {base:#x} written in order {order}: {d}", size=(bin(mask).count("1"), mask, order))
    if lo == 0:
        p.sample(dict(kind="table", base=base, mask=0b101000010011, order=2, zero_mask=0b101000010011))
    return p


# ---- table histories: the table is current after any interleaving of writes, resets and table calls --------
def table_history_shard(shard):
    """All histories up to a depth over {write byte at one of 4 addresses (two values, one of them 0), reset through
    load_program of a program without data, reset through load_program of a program with data, look at the table}."""
    arch, depth = shard
    p = Partial()
    if arch.startswith("riscv"):
        addrs = (BASE, BASE + 5, BASE + 6, (1 << 32) - 1) if arch == "riscv" else (BASE, BASE + 5, BASE + 64, BASE + 129)
        ops = ([("w", a, v) for a in addrs for v in (0, 0x9C)] + [("load", "addi x1, x0, 1\n", {}), ("load", ".data\nq: .byte 7\n", {BASE: 7}), ("table",)]
               + [("r", addrs[0], 4), ("r", addrs[1], 1), ("r", BASE + 32, 4)])  # reads, also of cells nobody wrote: a read is not a write
    else:
        addrs = (0, 1, 2000, 4095)
        ops = ([("w", a, v) for a in addrs for v in (0, 0x9C31)] + [("load", "", {}), ("load", "INC\n.data\nq: .word 7\n", {0: 0x9000, 4095: 7}), ("table",)]
               + [("r", addrs[1], 2), ("r", 77, 2)])
    import itertools as it
    for d in range(1, depth + 1):
        for hist in it.product(range(len(ops)), repeat=d):
            if ops[hist[-1]][0] != "table":
                continue  # the oracle looks at the table: histories are distinguished by where they end
            if any(ops[oi][0] == "r" for oi in hist):
                p.counters["table-after-a-read"] += 1
            if arch == "riscv":
                sim = RiscvSimulation()
            elif arch.startswith("riscv"):
                # with a data cache the table lists the words of the BACKING store (a one-set cache: the 4 addresses conflict)
                sim = RiscvSimulation(data_cache=rv.cache_opts(0, 0, 1 if arch.endswith("1") else 2, arch.split("-")[1], "lru", 0))
            else:
                sim = ToySimulation()
            flat = {}
            written = {}
            bad = None
            for oi in hist:
                op = ops[oi]
                if op[0] == "w":
                    written[op[1]] = op[2]
                    if arch.startswith("riscv"):
                        sim.state.memory.write_byte(op[1], U8(op[2]))
                    else:
                        sim.state.memory.write_halfword(op[1], U16(op[2]))
                    flat[op[1]] = op[2]
                elif op[0] == "load":
                    sim.load_program(op[1])
                    flat = dict(op[2])
                    written = {}
                elif op[0] == "r":
                    m = sim.state.memory
                    keys0 = set(rv.backing_memory(sim).memory_file) if arch == "riscv-wt-1" else None
                    (m.read_word if op[2] == 4 else m.read_byte if op[2] == 1 else m.read_halfword)(op[1])
                    if keys0 is not None and set(rv.backing_memory(sim).memory_file) != keys0 and bad is None:
                        bad = f"a read at {op[1]:#x} through the write-through cache changed which cells the backing store holds"
                else:
                    if arch.startswith("riscv"):
                        exp = []
                        if arch.startswith("riscv-wb"):
                            # what the backing store holds right now (C12 decides whether that is what it should hold)
                            flat = {a: int(v) for a, v in rv.backing_memory(sim).memory_file.items()}
                            if any(a in flat and flat[a] != op_v for a, op_v in written.items()):
                                p.counters["table-while-cache-holds-newer-data"] += 1
                        for w in sorted({a & ~3 for a in flat}):
                            exp.append(((w, "0x" + format(w, "08X")), F.fmt(sum(flat.get(w + i, 0) << (8 * i) for i in range(4)), 32)))
                        got = [((a, h), tuple(r)) for (a, h), r in sim.get_data_memory_entries()]
                    else:
                        exp = [((a, "0x" + format(a, "03X")), F.fmt(v, 16)) for a, v in sorted(flat.items())]
                        got = [((a, h), tuple(r)) for (a, h), r, _i, _c in sim.get_memory_table_entries()]
                    if got != exp and bad is None:
                        bad = f"table {got[:3]}, expected {exp[:3]}"
            p.evaluations += 1
            if sum(1 for oi in hist if ops[oi][0] == "table") > 1 or any(ops[oi][0] == "load" for oi in hist):
                p.nontrivial += 1
            if any(ops[oi][0] == "load" for oi in hist[1:]) and any(ops[oi][0] == "table" for oi in hist[:-1]):
                p.counters["table-looked-at-before-a-reset"] += 1
            if bad:
                p.violation(dict(oracle="table-history", arch=arch), dict(kind="table-history", arch=arch, hist=list(hist)),
                            f"{arch}: history {[ops[oi][:2] for oi in hist]}: {bad}", size=(d, hist))
    p.sample(dict(kind="table-history", arch=arch, hist=[0, len(ops) - 1, len(ops) - 3, len(ops) - 1]))
    return p


# ---- registers, TOY ----------------------------------------------------------------------------------
def register_shard(shard):
    p = Partial()
    vals = alpha.B32_MORE
    for i in range(32):
        sim = RiscvSimulation()
        for v in vals:
            sim.state.register_file.registers[i] = U32(v)
            got = sim.get_register_entries()
            p.evaluations += 1
            exp_v = 0 if i == 0 else v
            if v:
                p.nontrivial += 1
            if len(got) != 32:
                p.violation(dict(oracle="register-table"), dict(kind="reg", i=i, v=v), f"register table has {len(got)} rows")
                continue
            d = bad_reps(got[i], exp_v, 32)
            others = [k for k in range(32) if k != i and tuple(got[k]) != F.fmt(0, 32)]
            if d or others:
                p.violation(dict(oracle="register-table"), dict(kind="reg", i=i, v=v), f"x{i} = {v:#x}: {d or 'other rows changed: ' + str(others)}", size=(i, v))
    p.sample(dict(kind="reg", i=5, v=0x80000001))
    return p


def toy_shard(shard):
    what, lo, hi = shard
    p = Partial()
    sim = ToySimulation()
    sim.load_program("NOP\nNOP\n")
    st = sim.state
    for v in range(lo, hi):
        p.evaluations += 1
        if v:
            p.nontrivial += 1
        if what == "accu":
            st.accu = U16(v)
            got = sim.get_register_representations()["accu"]
            d = bad_reps(got, v, 16)
        elif what == "pc":
            st.program_counter = UInt12(v)
            got = sim.get_register_representations()["pc"]
            d = bad_reps(got, v, 12)
        elif what == "ir":
            # the instruction register shows the loaded instruction as its 16-bit word (opcodes 13..15 decode to NOP)
            ins = ToyInstruction.from_integer(v)
            st.loaded_instruction = ins
            got = sim.get_register_representations()["ir"]
            d = bad_reps(got, int(ins), 16)
            if d is None and v >> 12 <= 12 and int(ins) != v:
                d = f"decodes and re-encodes to {int(ins):#06x}"
        else:
            # the 65 536 values spread over the 4096 cells (cell = v mod 4096), one pass per 4096 values
            cell = v % 4096
            if (v - lo) % 64 == 0:
                # fresh simulation every 64 cells: the table is rebuilt from all written cells on every call
                sim = ToySimulation()
                sim.load_program("NOP\nNOP\n")
                st = sim.state
            st.memory.write_halfword(cell, U16(v))
            rows = sim.get_memory_table_entries()
            row = [r for r in rows if r[0][0] == cell]
            d = None
            if len(row) != 1:
                d = f"{len(row)} rows for cell {cell}"
            else:
                (a, h), reps, _instr, _cyc = row[0]
                if h != "0x" + format(cell, "03X"):
                    d = f"address text {h}"
                else:
                    d = bad_reps(reps, v, 16)
            addrs = [r[0][0] for r in rows]
            if d is None and addrs != sorted(addrs):
                d = "memory table rows are not in ascending address order"
        if d:
            p.violation(dict(oracle="toy-" + what), dict(kind="toy", what=what, v=v), f"TOY {what} = {v}: {d}", size=(v,))
    p.sample(dict(kind="toy", what=what, v=hi - 1))
    return p


EXEC_TEXTS = [
    ".data\na: .word 0x1234\nb: .word 0xFFFF\n.text\nLDA a\nADD b\nSUB a\nOR a\nAND b\nXOR a\nNOT\nINC\nDEC\nSTO 0x800\nZRO\nBRZ end\nNOP\nend: LDA b\n",
    "LDA 0x003\nINC\nSTO 0x003\nLDA 0xFFF\nADD 0x000\n",
    ".data\nn: .word 2\n.text\nloop: LDA n\nDEC\nSTO n\nBRZ out\nZRO\nBRZ loop\nout: XOR n\n",
]


def toy_exec_case(ti):
    """Registers shown while a program EXECUTES, half-cycle by half-cycle (the states arbitrary programs reach include the
    middle of an instruction): accu, pc and ir displays denote the reference two-phase machine's values at their widths."""
    from vf.ref.toy import ToyRef, encode_loaded
    sim = ToySimulation()
    sim.load_program(EXEC_TEXTS[ti])
    st = sim.state
    words = [int(st.memory.read_halfword(a)) for a in range(st.max_pc + 1)]
    data = {a: int(st.memory.read_halfword(a)) for a in range(4000, 4096) if int(st.memory.read_halfword(a))}
    ref = ToyRef(words, data, 0)
    n = 0
    while n < 400:
        reps = sim.get_register_representations()
        want_ir = None if ref.ir is None else encode_loaded(ref.ir)
        for name, v, bits in (("accu", ref.accu, 16), ("pc", ref.nxt, 12), ("ir", want_ir, 16)):
            if v is None:
                if tuple(reps[name]) != ("", "", "", ""):
                    return n, f"after {n} half-cycles {name} is shown as {reps[name]}, the machine has no loaded instruction"
                continue
            d = bad_reps(reps[name], v, bits)
            if d:
                return n, f"after {n} half-cycles ({'middle of an instruction' if n % 2 else 'instruction boundary'}) {name}: {d}"
        if ref.done() or sim.is_done():
            break
        sim.single_step()
        if ref.phase == 1:
            ref.first_half()
        else:
            ref.second_half()
        n += 1
    return n, None


def toy_exec_shard(ti):
    p = Partial()
    n, d = toy_exec_case(ti)
    p.evaluations += n + 1
    p.nontrivial += 1
    p.counters["toy-registers-shown-in-the-middle-of-an-instruction"] += n // 2
    if d:
        p.violation(dict(oracle="toy-registers-while-executing"), dict(kind="toy-exec", ti=ti), f"{EXEC_TEXTS[ti]!r}: {d}", size=(n, ti))
    p.sample(dict(kind="toy-exec", ti=ti))
    return p


def replay(case):
    k = case["kind"]
    if k == "toy-exec":
        _n, d = toy_exec_case(case["ti"])
        return [(dict(oracle="toy-registers-while-executing"), d)] if d else []
    if k == "fmt":
        d = bad_reps(get_n_bit_representations(case["v"], case["n"]), case["v"], case["n"])
        return [(dict(oracle="formatter", n=case["n"]), d)] if d else []
    if k == "table":
        d = table_case(case["base"], case["mask"], case["order"], case["zero_mask"])
        return [(dict(oracle="memory-table"), d)] if d else []
    if k == "table-history":
        part = table_history_shard((case["arch"], len(case["hist"])))
        return [(lst[0][1], lst[0][3]) for _k, (n, lst) in part.viol.items()]
    if k == "reg":
        sim = RiscvSimulation()
        sim.state.register_file.registers[case["i"]] = U32(case["v"])
        d = bad_reps(sim.get_register_entries()[case["i"]], 0 if case["i"] == 0 else case["v"], 32)
        return [(dict(oracle="register-table"), d)] if d else []
    part = toy_shard((case["what"], case["v"] - (case["v"] % 4096 if case["what"] == "mem" else 0), case["v"] + 1))
    return [(lst[0][1], lst[0][3]) for _k, (n, lst) in part.viol.items()]


def run(ctx):
    ctx.rule = ("Formatter: all 4096 values at 12 bits and all 65 536 at 16 bits, each also as v-2^n, v+2^n, v+2^(n+5); 32 bits over boundary values, every "
                "single-bit and run-of-ones pattern with the same shifts; other widths on boundaries; compared with an independent reference formatter "
                "and parsed back. Memory table: every subset of 12 byte addresses (3 words) written in ascending / descending / interleaved order incl. "
                "zero-valued bytes, at the bottom and at the top of the data range: exactly the aligned words containing a written byte, ascending, true "
                "addresses, little-endian values. Register table: every register x boundary values. TOY: every 16-bit accu value, every 12-bit pc value, every 16-bit word in the instruction register, "
                "every 16-bit value in a memory cell. Table histories: every interleaving up to depth 4 (5) of byte writes (incl. value 0), reads (also of cells nobody wrote), resets through "
                "load_program (with and without a data segment) and table calls, ending in a table call; the same with a one-set write-back / write-through data cache over four conflicting addresses, where the table must list the words the BACKING store holds at that moment (also while the cache holds newer data). Non-trivial = negative / over-wide / non-zero inputs, populations of more than one byte.")
    t0 = time.time()
    # in-range negative, over-wide positive, and negative AND over-wide aliases of every value
    offs12 = (0, -(1 << 12), 1 << 12, 1 << 17, -(1 << 13), -3 * (1 << 12), -(1 << 17))
    offs16 = (0, -(1 << 16), 1 << 16, 1 << 21, -(1 << 17), -3 * (1 << 16), -(1 << 21))
    shards = [(12, 0, 4096, offs12)] + [(16, lo, lo + 4096, offs16) for lo in range(0, 65536, 4096)]
    if not ctx.quick:
        # all 2^20 values at 20 bits and all 2^8 / 2^9 / 2^13 values at those widths
        offs20 = (0, -(1 << 20), 1 << 20, -(1 << 21), -3 * (1 << 20))
        shards += [(20, lo, lo + 32768, offs20) for lo in range(0, 1 << 20, 32768)]
        shards += [(8, 0, 256, (0, -256, 256, -512, 1 << 13)), (9, 0, 512, (0, -512, 512, -1024)), (13, 0, 8192, (0, -8192, 8192, -16384))]
    part = pmap(formatter_shard, shards)
    part.merge(formatter_misc(None))
    ctx.space("formatter", part, t0, widths=[12, 16, 32, 1, 2, 4, 7, 8, 9, 13, 24, 31, 33, 64])
    t0 = time.time()
    top = (1 << 32) - 12
    shards = [(b, lo, lo + 256, ctx.seed) for b in (BASE, top) for lo in range(0, 4096, 256)]
    if not ctx.quick:
        shards += [(b, lo, lo + 256, ctx.seed + 1) for b in (BASE + 8, BASE + 1022 * 4) for lo in range(0, 4096, 256)]
    part = pmap(table_shard, shards)
    ctx.space("memory-table", part, t0, populations=4096, orders=3)
    ctx.require("zero-valued-written-byte")
    t0 = time.time()
    part = pmap(table_history_shard, [("riscv", 4 if ctx.quick else 5), ("toy", 4 if ctx.quick else 5)]
                + [(a, 4 if ctx.quick else 5) for a in ("riscv-wb-1", "riscv-wb-2", "riscv-wt-1")])
    ctx.space("table-histories", part, t0, operations=14, depth=4 if ctx.quick else 5)
    ctx.require("table-looked-at-before-a-reset", "table-while-cache-holds-newer-data", "table-after-a-read")
    t0 = time.time()
    part = pmap(register_shard, [0])
    ctx.space("register-table", part, t0)
    t0 = time.time()
    shards = [("accu", lo, lo + 4096) for lo in range(0, 65536, 4096)] + [("pc", 0, 4096)] + [("ir", lo, lo + 4096) for lo in range(0, 65536, 4096)] + [("mem", lo, lo + 4096) for lo in range(0, 65536, 4096)]
    part = pmap(toy_shard, shards)
    ctx.space("toy-registers-and-memory-table", part, t0)
    t0 = time.time()
    part = pmap(toy_exec_shard, list(range(len(EXEC_TEXTS))))
    ctx.space("toy-registers-while-executing", part, t0, programs=len(EXEC_TEXTS), note="after every half-cycle, against the reference two-phase machine")
    ctx.require("toy-registers-shown-in-the-middle-of-an-instruction")
