"""C09 — data-cache hit/miss accounting and miss penalties match a reference cache (BFS + ENUM)."""
from __future__ import annotations

import itertools
import time

from vf.adapt import rv
from vf.checks import c03, cachebfs, cachecfg
from vf.checks.cachebfs import Cfg
from vf.engine.core import Partial, pmap
from vf.ref import rv32
from vf.ref.cache import RefCache

ID = "C09"
LEVEL = "model_checking"
WANT = ("accounting",)


STR_REGS = {**c03.PROG_REGS, 17: 4, 10: c03.BASE + 64}


def prog_shard(shard):
    length, first, ncfg = shard
    A = c03.mem_alphabet()
    p = Partial()
    for tail in itertools.product(range(len(A)), repeat=length - 1):
        idx = (first,) + tail
        prog = [A[i] for i in idx]
        # programs with an ecall are also run with a7 = 4 and a0 = a string address preset (a print-string right behind stores)
        for regs_in in ((c03.PROG_REGS, STR_REGS) if any(i[0] == "ecall" for i in prog) else (c03.PROG_REGS,)):
            one_program(p, prog, idx, regs_in, ncfg)
    if first == 0:
        p.sample(dict(kind="cached-program", prog=[list(A[(2 * i) % len(A)]) for i in range(length)], ci=0))
    return p


def one_program(p, prog, idx, regs_in, ncfg):
    length = len(prog)
    pd = {4 * i: ins for i, ins in enumerate(prog)}
    r, m = rv.ref_state(regs_in, c03.PROG_WORDS)
    m.log = []
    exp = rv32.run_seq(pd, r, m, 40)
    if exp.err is not None:
        p.counters["skipped-fault"] += 1
        return
    preset = regs_in is STR_REGS
    if preset:
        p.counters["print-string-with-preset-registers"] += 1
    tag = " a7=4 a0=string" if preset else ""
    for ci in range(ncfg):
        ib, bb, ways, kind, policy = c03.PROG_CACHES[ci]
        pen = (0, 3, 1, 5, 2, 7)[ci]
        ref = RefCache(ib, bb, ways, kind, policy, pen)
        extra = 0
        for k, a, n in m.log:
            # a print-string ecall reads bytes uncounted
            _h, e, _ev = ref.access(a, k == "w", k != "u")
            extra += e
        stats = []
        case = dict(kind="cached-program", prog=[list(i) for i in prog], ci=ci, str_regs=preset)
        for mode in (rv.SINGLE, rv.FIVE):
            sim = rv.make_sim(mode, prog, regs_in, c03.PROG_WORDS, dcache=rv.cache_opts(ib, bb, ways, kind, policy, pen))
            got = rv.run(sim, 400)
            p.evaluations += 1
            st = sim.get_data_cache_stats()
            stats.append((st["accesses"], st["hits"]))
            bad = []
            if got.exc is not None or got.err is not None:
                bad.append(("exception", f"cached run failed: {got.exc or got.err}"))
            else:
                if int(st["accesses"]) != exp.loads + exp.stores:
                    bad.append(("program-accesses", f"accesses={st['accesses']}, program executed {exp.loads} loads + {exp.stores} stores"))
                if int(st["hits"]) != ref.hits:
                    bad.append(("program-hits", f"hits={st['hits']}, reference cache on the program's access stream: {ref.hits}"))
                if mode == rv.SINGLE and got.cycles != exp.ic + extra:
                    bad.append(("program-penalty", f"single-cycle cycles={got.cycles}, instructions {exp.ic} + penalties {extra}"))
            for f, d in bad:
                p.violation(dict(oracle="cached-program", field=f), case, f"[{rv.prog_text(prog)}]{tag} {kind}/{policy} i{ib}b{bb}w{ways} pen={pen} {mode}: {d}", size=(length, idx, ci))
        if stats[0] != stats[1]:
            p.violation(dict(oracle="cached-program", field="mode-mismatch"), case,
                        f"[{rv.prog_text(prog)}]{tag} {kind}/{policy} i{ib}b{bb}w{ways}: (accesses, hits) single-cycle {stats[0]} five-stage {stats[1]}", size=(length, idx, ci))
    if ref.hits and ref.accesses > ref.hits:
        p.nontrivial += 1
    if "eviction" in ref.events:
        p.counters["program-eviction"] += 1
    if any(k == "u" for k, _a, _n in m.log):
        p.counters["program-uncounted-read"] += 1


PRELOAD_TEXTS = [
    ".data\nb: .byte 1, 2, 3\n.text\nnop\n", ".data\nh: .half 0x1234, 7\nw: .word 9\n.text\nnop\n", ".data\nw: .word 1, 2, 3, 4, 5\n.text\nnop\n",
    ".data\ns: .string \"hi!\"\nw: .word 7\n.text\nnop\n", ".data\nz: .zero 3\nb: .byte 9\n.text\nnop\n", ".data\ne: .string \"\"\nh: .half -1\n.text\nnop\n",
    "nop\n.data\nb: .byte 1\nh: .half 2\nw: .word 3\ns: .string \"abcd\"\nz: .zero 1\nw2: .word 4\n",
]


def preload_shard(shard):
    """After load_program of a program with a data segment (every declaration kind) the data-cache counters and the cycle
    counter are untouched, and the first counted read of the first declared word is a cold miss (the reference cache sees accesses only)."""
    ti = shard
    from architecture_simulator.simulation.riscv_simulation import RiscvSimulation
    p = Partial()
    text = PRELOAD_TEXTS[ti]
    for ci, (ib, bb, ways, kind, policy) in enumerate(c03.PROG_CACHES):
        for mode in (rv.SINGLE, rv.FIVE):
            for loads in (1, 2):
                sim = RiscvSimulation(mode=mode, data_cache=rv.cache_opts(ib, bb, ways, kind, policy, 3))
                for _ in range(loads):
                    sim.load_program(text)
                st = sim.get_data_cache_stats()
                p.evaluations += 1
                p.nontrivial += 1
                p.counters["preload"] += 1
                bad = []
                if st["accesses"] != "0" or st["hits"] != "0" or st["last_hit"]:
                    bad.append(("preload-counted", f"data-cache counters after {loads} load(s): {st}"))
                if sim.state.performance_metrics.cycles != 0:
                    bad.append(("preload-penalty", f"cycle counter is {sim.state.performance_metrics.cycles} after loading"))
                if not bad:
                    # the reference cache sees accesses only: the first counted access after the load is a cold miss
                    c0 = sim.state.performance_metrics.cycles
                    try:
                        sim.state.memory.read_word(rv.BASE, True)
                    except TypeError:
                        sim.state.memory.read_word(rv.BASE, update_statistics=True)
                    st = sim.get_data_cache_stats()
                    if (st["accesses"], st["hits"], bool(st["last_hit"])) != ("1", "0", False) or sim.state.performance_metrics.cycles - c0 != 3:
                        bad.append(("preload-then-first-access", f"first counted read after the load: {st}, cycle surcharge {sim.state.performance_metrics.cycles - c0}; "
                                    "reference: 1 access, 0 hits, miss, surcharge 3"))
                for f, d in bad:
                    p.violation(dict(oracle="preload", field=f), dict(kind="preload", ti=ti, ci=ci, mode=mode, loads=loads),
                                f"{text!r} {kind}/{policy} i{ib}b{bb}w{ways} {mode}: {d}", size=(ti, ci, loads))
    p.sample(dict(kind="preload", text=text))
    return p


PHASE_TEXTS = [
    "lui x3, 4\nsw x3, 0(x3)\nlw x1, 64(x3)\nsw x1, 128(x3)\nlw x2, 0(x3)\nlw x4, 64(x3)\nsb x4, 129(x3)\n",
    ".data\na: .word 1, 2, 3, 4\n.text\nla x3, a\nlw x1, 0(x3)\nlw x2, 4(x3)\nsw x2, 8(x3)\nlb x5, 12(x3)\nsb x5, 1(x3)\nlw x6, 256(x3)\nlw x7, 0(x3)\n",
    "",
]
PHASE_STEPS = (0, 1, 2, 3, 5, 99)


def phase_history(xi, yi, k, ci, mode):
    """load X; k steps; load Y; run — on ONE simulation. In each phase every counted miss adds exactly the penalty:
    d(cycles) = d(cycles of the same history without a data cache) + penalty * (d(accesses) - d(hits))."""
    from architecture_simulator.simulation.riscv_simulation import RiscvSimulation
    ib, bb, ways, kind, policy = c03.PROG_CACHES[ci]
    pen = (2, 3, 1, 5, 4, 7)[ci]
    sims = (RiscvSimulation(mode=mode, data_cache=rv.cache_opts(ib, bb, ways, kind, policy, pen)), RiscvSimulation(mode=mode))
    bad = []

    def snap():
        st = sims[0].get_data_cache_stats()
        return int(st["accesses"]), int(st["hits"]), sims[0].state.performance_metrics.cycles, sims[1].state.performance_metrics.cycles

    for phase, (ti, steps) in enumerate(((xi, k), (yi, 400))):
        for s_ in sims:
            s_.load_program(PHASE_TEXTS[ti])
        a0, h0, c0, u0 = snap()
        n = 0
        while n < steps and not sims[0].is_done():
            for s_ in sims:
                s_.step()
            n += 1
        a1, h1, c1, u1 = snap()
        misses = (a1 - a0) - (h1 - h0)
        if (c1 - c0) != (u1 - u0) + pen * misses:
            bad.append(("phase-penalty", f"phase {phase + 1} ({n} steps of program {ti}): cycle counter advanced by {c1 - c0}, the same steps without a data cache take "
                        f"{u1 - u0}, {misses} counted misses x penalty {pen}"))
            break
    return bad, misses


def phase_shard(shard):
    xi = shard
    p = Partial()
    for yi in range(len(PHASE_TEXTS)):
        for k in PHASE_STEPS:
            for ci in range(len(c03.PROG_CACHES)):
                for mode in (rv.SINGLE, rv.FIVE):
                    bad, misses = phase_history(xi, yi, k, ci, mode)
                    p.evaluations += 1
                    if k and misses:
                        p.nontrivial += 1
                        p.counters["miss-after-a-reload-of-a-started-simulation"] += 1
                    for f, d in bad:
                        p.violation(dict(oracle="phase", field=f), dict(kind="phase", xi=xi, yi=yi, k=k, ci=ci, mode=mode),
                                    f"load P{xi}; {k} steps; load P{yi}; run [{'/'.join(map(str, c03.PROG_CACHES[ci]))}] {mode}: {d}", size=(k, xi, yi, ci))
    p.sample(dict(kind="phase", xi=0, yi=1, k=3, ci=0, mode=rv.FIVE))
    return p


def replay(case):
    if case["kind"] in ("cache-history", "cache-deep-path"):
        return cachebfs.replay(case)
    if case["kind"] == "phase":
        bad, _m = phase_history(case["xi"], case["yi"], case["k"], case["ci"], case["mode"])
        return [(dict(oracle="phase", field=f), d) for f, d in bad]
    if case["kind"] == "preload":
        part = preload_shard(case["ti"])
        return [(lst[0][1], lst[0][3]) for _k, (n, lst) in part.viol.items()]
    prog = [tuple(i) for i in case["prog"]]
    ci = case["ci"]
    pd = {4 * i: ins for i, ins in enumerate(prog)}
    regs_in = STR_REGS if case.get("str_regs") else c03.PROG_REGS
    r, m = rv.ref_state(regs_in, c03.PROG_WORDS)
    m.log = []
    exp = rv32.run_seq(pd, r, m, 40)
    ib, bb, ways, kind, policy = c03.PROG_CACHES[ci]
    pen = (0, 3, 1, 5, 2, 7)[ci]
    ref = RefCache(ib, bb, ways, kind, policy, pen)
    extra = 0
    for k, a, n in m.log:
        extra += ref.access(a, k == "w", k != "u")[1]
    res = []
    stats = []
    for mode in (rv.SINGLE, rv.FIVE):
        sim = rv.make_sim(mode, prog, regs_in, c03.PROG_WORDS, dcache=rv.cache_opts(ib, bb, ways, kind, policy, pen))
        got = rv.run(sim, 400)
        st = sim.get_data_cache_stats()
        stats.append((st["accesses"], st["hits"]))
        if int(st["accesses"]) != exp.loads + exp.stores or int(st["hits"]) != ref.hits or (mode == rv.SINGLE and got.cycles != exp.ic + extra):
            res.append((dict(oracle="cached-program", field="replay"), f"{mode}: stats {st} cycles {got.cycles}; expected accesses {exp.loads + exp.stores} hits {ref.hits}"))
    if stats[0] != stats[1]:
        res.append((dict(oracle="cached-program", field="mode-mismatch"), f"{stats}"))
    return res


def run(ctx):
    seed = ctx.seed
    ctx.rule = ("BFS over histories of *accepted* accesses on the real data-cache memory system (rejected accesses are terminal transitions), "
                "replayed on fresh objects; per transition d(accesses), d(hits), last_hit and d(cycles) must equal a reference set-associative "
                "cache (write-back = write-allocate, write-through = no-write-allocate, reads always allocate, LRU/PLRU from the reference "
                "policies); in every state the resident (set, tag) pairs shown by cache_repr() equal the reference's (one-step look-ahead). "
                "Control fixed point: with constant data the BFS runs to closure. Preload clause: after load_program of programs with every kind of data declaration (loaded once or twice) counters and cycle counter are untouched and the first counted access afterwards is a cold miss with its penalty. Reload clause: histories load X; k steps; load Y; run on one simulation, in each phase d(cycles) = d(cycles without a data cache) + penalty x counted misses. Program clause: counters identical in both pipeline modes, "
                "accesses = loads+stores of the golden run, hits = reference cache on the golden access stream. Non-trivial = history with an "
                "eviction or rejection / program with both hits and misses.")
    ctx.assumptions += ["counter values are excluded from the state key (their deltas are checked on every transition); whether any counted access and any hit has happened yet is part of it",
                        "a rejected access (word-boundary crossing) ends the explored history: the claim excludes it"]
    pens = (0, 1, 5)
    k = 0
    if ctx.quick:
        for g, kind, policy in cachecfg.quick_configs(seed):
            pen = pens[(k + seed) % 3]
            nwords = len(Cfg(*g, kind, policy).words)
            cachebfs.explore(ctx, Cfg(*g, kind, policy, pen, "full", k % 2 == 0, "base"), WANT, 3 if nwords <= 4 else 2)
            cachebfs.explore(ctx, Cfg(*g, kind, policy, pens[(k + 1) % 3], "word", k % 2 == 1, ("mixed", "base", "top", "neg")[k % 4]), WANT,
                             6 if nwords <= 4 else (5 if nwords <= 6 else 3))
            k += 1
        closure = [((0, 0, 1), "lru"), ((0, 0, 2), "lru"), ((0, 0, 2), "plru"), ((0, 0, 3), "lru"), ((1, 0, 2), "lru"), ((0, 0, 4), "plru"), ((1, 0, 1), "lru")]
    else:
        for g, kind, policy in cachecfg.thorough_configs():
            pen = pens[k % 3]
            nwords = len(Cfg(*g, kind, policy).words)
            cachebfs.explore(ctx, Cfg(*g, kind, policy, pen, "full", k % 2 == 0, "base"), WANT, 3 if nwords <= 6 else 2, state_cap=800000)
            cachebfs.explore(ctx, Cfg(*g, kind, policy, pens[(k + 1) % 3], "word", k % 2 == 1, ("mixed", "base", "top", "neg", "big")[k % 5]), WANT,
                             7 if nwords <= 4 else (5 if nwords <= 6 else 4), state_cap=800000)
            k += 1
        closure = [((0, 0, 1), "lru"), ((0, 0, 2), "lru"), ((0, 0, 2), "plru"), ((0, 0, 3), "lru"), ((1, 0, 2), "lru"), ((1, 0, 2), "plru"),
                   ((0, 0, 4), "plru"), ((0, 0, 4), "lru"), ((1, 0, 1), "lru"), ((1, 1, 2), "lru"), ((0, 1, 2), "plru"), ((2, 0, 1), "lru")]
    cachebfs.explore(ctx, Cfg(12, 1, 1, ("wt", "wb")[seed % 2], "lru", 1, "word", False, "base"), WANT, 1 if ctx.quick else 2)
    for g, policy in closure:
        for kind in ("wb", "wt"):
            # two closure spaces in three run over a preloaded backing store: the memory table then has rows (an observer that walks them is an operation)
            cachebfs.explore(ctx, Cfg(*g, kind, policy, pens[k % 3], "control", bool(k % 3), "base", True), WANT, 60)
            k += 1
    ctx.require("cache-eviction", "cache-fill", "cache-hit", "cache-miss", "rejected")
    cachebfs.deep_paths(ctx, WANT)
    for L in range(1, (3 if ctx.quick else 4) + 1):
        t0 = time.time()
        part = pmap(prog_shard, [(L, f, 6) for f in range(len(c03.mem_alphabet()))])
        ctx.space(f"cached-programs-len{L}", part, t0, length=L, cache_configs=6, modes=2)
    ctx.require("program-eviction", "program-uncounted-read", "print-string-with-preset-registers")
    t0 = time.time()
    part = pmap(preload_shard, list(range(len(PRELOAD_TEXTS))))
    ctx.space("parser-preloads", part, t0, texts=len(PRELOAD_TEXTS), cache_configs=6, modes=2)
    ctx.require("preload")
    t0 = time.time()
    part = pmap(phase_shard, list(range(len(PHASE_TEXTS))))
    ctx.space("penalties-across-reloads", part, t0, histories="load X; k steps; load Y; run", programs=len(PHASE_TEXTS), steps=list(PHASE_STEPS), cache_configs=6, modes=2)
    ctx.require("miss-after-a-reload-of-a-started-simulation")
