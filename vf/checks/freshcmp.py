"""Shared shard function for fresh-interpreter differentials (see vf/engine/fresh.py)."""
from __future__ import annotations

from vf.engine import fresh
from vf.engine.core import Partial


def describe(step):
    k = step[0]
    if k in ("toy_load", "rv_load"):
        return f"{'TOY' if k == 'toy_load' else 'RISC-V'} assembler sees {step[1]!r}"
    if k == "toy_new":
        return f"ToySimulation(unified_memory_size={step[1]}) is created and used"
    if k == "rv_new":
        return f"a {step[1]} RISC-V simulation{' with caches' if step[2] else ''} runs a small program"
    return f"a TOY simulation runs {step[1]!r}"


def first_difference(a, b):
    if a.keys() != b.keys():
        return f"result has {sorted(b)}, without the prelude {sorted(a)}: {str(b)[:160]}"
    for k in sorted(a):
        if a[k] != b[k]:
            if isinstance(a[k], list) and isinstance(b[k], list):
                for i, (x, y) in enumerate(zip(a[k], b[k])):
                    if x != y:
                        return f"{k}[{i}] is {y}, without the prelude {x}"
                return f"{k} has {len(b[k])} entries, without the prelude {len(a[k])}"
            return f"{k} is {b[k]!r}, without the prelude {a[k]!r}"
    return None


def compare(oracle, prelude, main):
    """-> (nontrivial, detail or None)"""
    base, got = fresh.differential(prelude, main)
    d = first_difference(base, got)
    return "error" not in base, d


def compare_pair(main_a, main_b):
    a, b = fresh.run_scenario([], main_a), fresh.run_scenario([], main_b)
    return "error" not in a, first_difference(a, b)


def pair_shard(items):
    """items: [(oracle name, description, main action A (reference), main action B)] — each action in its own interpreter."""
    p = Partial()
    for oracle, desc, main_a, main_b in items:
        nontrivial, d = compare_pair(main_a, main_b)
        p.evaluations += 1
        p.traces += 1
        if nontrivial:
            p.nontrivial += 1
        p.counters["fresh-interpreter-differential"] += 1
        if d:
            p.violation(dict(oracle=oracle, field="depends-on-process-history"), dict(kind="fresh-pair", oracle=oracle, desc=desc, a=main_a, b=main_b),
                        f"in fresh interpreters: {desc}: {d.replace('without the prelude', 'in the reference run')}", size=(len(str(main_b)),))
    if items:
        p.sample(dict(kind="fresh-pair", a=items[0][2], b=items[0][3]))
    return p


def shard(items):
    """items: [(oracle name, prelude, main)]"""
    p = Partial()
    for oracle, prelude, main in items:
        nontrivial, d = compare(oracle, prelude, main)
        p.evaluations += 1
        p.traces += 1
        if nontrivial:
            p.nontrivial += 1
        p.counters["fresh-interpreter-differential"] += 1
        if d:
            p.violation(dict(oracle=oracle, field="depends-on-process-history"), dict(kind="fresh", oracle=oracle, prelude=prelude, main=main),
                        f"in a fresh interpreter, after [{'; '.join(describe(s) for s in prelude)}]: {main[0]}({main[1]!r}): {d}", size=(len(prelude), len(str(main))))
    if items:
        p.sample(dict(kind="fresh", prelude=items[0][1], main=items[0][2]))
    return p


def replay(case):
    if case["kind"] == "fresh-pair":
        _n, d = compare_pair(case["a"], case["b"])
        return [(dict(oracle=case["oracle"], field="depends-on-process-history"), d.replace("without the prelude", "in the reference run"))] if d else []
    _n, d = compare(case["oracle"], case["prelude"], case["main"])
    return [(dict(oracle=case["oracle"], field="depends-on-process-history"), d)] if d else []
