"""C01 — single-cycle RV32IM execution matches the ISA reference (ENUM, exploration)."""
from __future__ import annotations

import itertools
import time

from vf.adapt import rv
from vf.checks import alpha
from vf.engine.core import Partial, pmap, rot
from vf.ref import rv32

ID = "C01"
LEVEL = "exploration"
BASE = rv32.MINADDR
M = rv32.M
NOP = ("addi", 0, 0, 0, 0)


# ------------------------------------------------------------------------------------------------
# comparison of one single-cycle run with the golden run
# ------------------------------------------------------------------------------------------------
def compare(exp, got, check_pc=True):
    """Returns list of (field, detail). exp: rv32.SeqResult, got: rv.RunResult."""
    bad = []
    if got.exc is not None:
        return [("exception", got.exc)]
    if exp.err is not None:
        if got.err != exp.err:
            bad.append(("fault", f"reference faults at {exp.err}, simulator reports {got.err}"))
    elif got.err is not None:
        bad.append(("fault", f"simulator faults at {got.err} ({got.err_repr}), reference does not"))
    if got.regs != exp.regs:
        d = [(i, hex(exp.regs[i]), hex(got.regs[i])) for i in range(32) if exp.regs[i] != got.regs[i]]
        bad.append(("reg", f"registers differ (index, expected, got): {d[:4]}"))
    gm = got.mem
    em = exp.mem
    if exp.dontcare:
        gm = {a: v for a, v in gm.items() if a not in exp.dontcare}
        em = {a: v for a, v in em.items() if a not in exp.dontcare}
    if gm != em:
        ks = sorted(set(gm) ^ set(em) | {a for a in gm if a in em and gm[a] != em[a]})[:4]
        bad.append(("mem", f"memory differs at {[(hex(a), em.get(a, 0), gm.get(a, 0)) for a in ks]}"))
    if got.out != exp.out:
        bad.append(("out", f"output expected {exp.out!r} got {got.out!r}"))
    if got.exit != exp.exit:
        bad.append(("exit", f"exit code expected {exp.exit!r} got {got.exit!r}"))
    if exp.err is None and got.err is None:
        if check_pc and (got.pc & M) != (exp.pc & M):
            bad.append(("pc", f"pc expected {exp.pc} got {got.pc}"))
        if got.retired != exp.retired:
            bad.append(("order", f"executed addresses expected {exp.retired[:12]} got {got.retired[:12]}"))
        if got.done != exp.done:
            bad.append(("done", f"is_done expected {exp.done} got {got.done}"))
    return bad


def check_insn(ins, regs, words, at, pre=0):
    """One instruction at address `at`, executed by one real step() from the prepared state."""
    sim = rv.make_sim(rv.SINGLE, [], regs, words)
    im = sim.state.instruction_memory
    im.write_instruction(at, rv.to_impl(ins, at))
    sim.state.program_counter = at
    r, m = rv.ref_state(regs, words)
    exp = rv32.run_seq({at: ins}, r, m, 1, pc0=at)
    got = rv.run(sim, 1, extra_addrs=exp.mem.keys())
    return exp, compare(exp, got)


def insn_case(ins, regs, words, at):
    return dict(kind="insn", ins=list(ins), regs={str(k): v for k, v in regs.items()},
                words={str(k): v for k, v in words.items()}, at=at)


def check_prog(prog, regs, words, steps, caches=None):
    """Whole program, compared after every step. caches: (data-cache tuple or None, instruction-cache tuple or None)."""
    dc = rv.cache_opts(*caches[0]) if caches and caches[0] else None
    ic = rv.cache_opts(*caches[1]) if caches and caches[1] else None
    sim = rv.make_sim(rv.SINGLE, prog, regs, words, dcache=dc, icache=ic)
    r, m = rv.ref_state(regs, words)
    pd = {4 * i: ins for i, ins in enumerate(prog)}
    trace = []

    def rec(n, pc, regs_, mem_, out, exitc):
        trace.append((pc, tuple(regs_), out, exitc))

    exp = rv32.run_seq(pd, r, m, steps, per_step=rec)
    bad = []

    def per_step(n, s):
        if bad or n > len(trace):
            return
        pc, rg, out, exitc = trace[n - 1]
        st = s.state
        if tuple(rv.regs_of(s)) != rg or (st.program_counter & M) != pc or st.output != out or st.exit_code != exitc:
            bad.append(("step", f"state after step {n} differs: pc {st.program_counter} vs {pc}, out {st.output!r} vs {out!r}, "
                        f"exit {st.exit_code} vs {exitc}, regs equal={tuple(rv.regs_of(s)) == rg}"))

    got = rv.run(sim, steps, extra_addrs=exp.mem.keys(), per_step=per_step)
    bad.extend(compare(exp, got))
    return exp, bad


def prog_case(prog, regs, words, steps, caches=None):
    return dict(kind="prog", caches=caches, prog=[list(i) for i in prog], regs={str(k): v for k, v in regs.items()},
                words={str(k): v for k, v in words.items()}, steps=steps)


def replay(case):
    regs = {int(k): v for k, v in case["regs"].items()}
    words = {int(k): v for k, v in case["words"].items()}
    if case["kind"] == "insn":
        ins = tuple(case["ins"])
        _e, bad = check_insn(ins, regs, words, case["at"])
        return [(dict(oracle="single-step", op=ins[0], field=f), f"{rv.ins_text(ins)} at {case['at']}: {d}") for f, d in bad]
    prog = [tuple(i) for i in case["prog"]]
    caches = case.get("caches")
    if caches:
        caches = tuple(tuple(c) if c else None for c in caches)
    _e, bad = check_prog(prog, regs, words, case["steps"], caches)
    return [(dict(oracle="program", field=f, **({"caches": "on"} if caches else {})), f"[{rv.prog_text(prog)}]: {d}") for f, d in bad]


# ------------------------------------------------------------------------------------------------
# (a) operand sweep
# ------------------------------------------------------------------------------------------------
RA, RB = 5, 6  # overwritten per seed


def _regs(seed):
    r1, r2, _ = alpha.regs_for_seed(seed)
    return r1, r2


def gen_rtype(op, seed, thorough):
    ra, rb = _regs(seed)
    vals = alpha.B32_MORE if thorough else alpha.B32
    for rd, rs1, rs2 in itertools.product((0, ra, rb), repeat=3):
        ins = (op, rd, rs1, rs2, 0)
        for v1 in vals:
            if rs1 == rs2 or rs2 == 0:
                yield ins, {ra: v1, rb: v1 ^ 0x5A5A5A5A}, {}, 0
                continue
            for v2 in vals:
                yield ins, {ra: v1, rb: v2}, {}, 0


IVALS_CORE = [0, 0x7FF, 0xFFFFF800, 0xFFFFFFFF, 0x80000000, 0x7FFFFFFF]


LITE = False  # set by C02 (quick): boundary immediates instead of all 4096 / the 257-stride
IMM12_BOUNDARY = [0, 1, 2, 3, 4, 5, 7, 8, 15, 16, 31, 32, 33, 63, 64, 127, 128, 255, 256, 1023, 1024, 2046, 2047,
                  -1, -2, -3, -4, -5, -8, -16, -31, -32, -33, -128, -129, -1024, -2047, -2048, 0x555, -0x556]


def gen_itype(op, seed, thorough):
    ra, rb = _regs(seed)
    vals = IVALS_CORE + rot([v for v in alpha.B32 if v not in IVALS_CORE], 2 * seed)[: (10 if thorough else 2)]
    imms = (IMM12_BOUNDARY if LITE else list(range(-2048, 2048))) + [2048, 4095, 4096, -2049, 0x12345, -0x12345]
    for rd, rs1 in itertools.product((0, ra, rb), repeat=2):
        for imm in imms:
            ins = (op, rd, rs1, 0, imm)
            for v in vals:
                yield ins, {ra: v, rb: v ^ 0xFFFF}, {}, 0


def gen_shift(op, seed, thorough):
    ra, rb = _regs(seed)
    vals = alpha.B32_MORE if thorough else alpha.B32
    for rd, rs1 in ((ra, rb), (ra, ra), (0, rb), (rb, 0)):
        for sh in list(range(32)) + [32, 33, 63, -1]:
            ins = (op, rd, rs1, 0, sh)
            for v in vals:
                yield ins, {ra: v, rb: v}, {}, 0


MEMWORDS = [0x00000000, 0x80FF7F01, 0xFFFFFFFF, 0x7F80FF00, 0x12345678, 0x8000FFFF, 0x00008000, 0x80000080, 0x7FFF7F7F]
LS_IMMS = [0, 1, 2, 3, -1, -4, -2048, 2047]


def _bases():
    # (base register value, words preloaded around the effective region)
    return [BASE, BASE + 1, BASE + 2, BASE + 3, BASE + 2048, 0xFFFFFFFC, 0xFFFFFFFF, 0xFFFFFFF8, BASE - 1, BASE - 4, 0, 0x7FFFFFFE]


def gen_load(op, seed, thorough):
    ra, rb = _regs(seed)
    words_list = MEMWORDS  # every seed sees every word: the sign-extension boundaries (0x80, 0x8000 exactly) must not be rotated away
    for rd, rs1 in ((ra, rb), (rb, rb), (0, rb)):
        for base in _bases():
            for imm in LS_IMMS:
                ins = (op, rd, rs1, 0, imm)
                ea = (base + imm) & M
                for w in words_list:
                    words = {}
                    for a in ((ea & ~3) & M, ((ea & ~3) + 4) & M):
                        if a >= BASE:
                            words[a] = w if a == (ea & ~3) & M else (w ^ 0xA5A5A5A5)
                    yield ins, {ra: 0xCAFE0000, rb: base}, words, 0


def gen_store(op, seed, thorough):
    ra, rb = _regs(seed)
    core = [0, 0xFFFFFF00, 0xFFFF0000, 0x80]
    vals = alpha.B32_SMALL + core[1:3] if thorough else core + rot([v for v in alpha.B32_SMALL if v not in core], seed)[:4]
    for rs1, rs2 in ((rb, ra), (rb, rb), (rb, 0), (0, ra)):
        for base in _bases():
            for imm in LS_IMMS:
                ins = (op, 0, rs1, rs2, imm)
                ea = ((base if rs1 else 0) + imm) & M
                words = {}
                for a in ((ea & ~3) & M, ((ea & ~3) + 4) & M):
                    if a >= BASE:
                        words[a] = 0xEEEEEEEE
                for v in vals:
                    yield ins, {ra: v, rb: base}, words, 0


BR_IMMS = [-4096, -8, -4, 4, 8, 4094, 0, 6]


def gen_branch(op, seed, thorough):
    ra, rb = _regs(seed)
    vals = alpha.B32
    for rs1, rs2 in ((ra, rb), (ra, ra), (ra, 0), (0, rb)):
        for imm in BR_IMMS:
            ins = (op, 0, rs1, rs2, imm)
            for at in (0, 4, 8, 16380):
                for v1 in vals:
                    if rs1 == rs2 or rs2 == 0 or rs1 == 0:
                        yield ins, {ra: v1, rb: v1}, {}, at
                        continue
                    for v2 in (vals if at == 4 else (v1, v1 ^ 0x80000000, (v1 + 1) & M)):
                        yield ins, {ra: v1, rb: v2}, {}, at


def gen_utype(op, seed, thorough):
    ra, rb = _regs(seed)
    if thorough:
        imms = range(0, 1 << 20)
    else:
        imms = sorted(set(range((seed * 13) % 257, 1 << 20, 257 * (16 if LITE else 1))) | {0, 1, 0x7FFFF, 0x80000, 0x80001, 0xFFFFE, 0xFFFFF, 0x100000, -1, -0x80000, 0x12345})
    for imm in imms:
        for rd in ((ra, 0) if imm % 64 == 0 else (ra,)):
            for at in ((0, 4, 8188, 16380) if (op == "auipc" and imm % 16 < 2) else (0,)):
                yield (op, rd, 0, 0, imm), {ra: 0x11111111}, {}, at


def gen_jal(op, seed, thorough):
    ra, rb = _regs(seed)
    imms = [0, 2, 4, 8, -4, -8, 2046, 2048, 0xFFFFE, -0x100000, 0x7FFFE, 0x80000, 16376, -16380, 0x100000, 0x1FFFFE, 6, -2]
    if thorough:
        imms = sorted(set(imms) | set(range(-4096, 4096, 2)) | set(range(-0x100000, 0x100000, 4098)))
    for imm in imms:
        for rd in (0, ra):
            for at in (0, 4, 8, 8188, 16380):
                yield (op, rd, 0, 0, imm), {ra: 0x22222222}, {}, at


def gen_jalr(op, seed, thorough):
    ra, rb = _regs(seed)
    vals = alpha.B32_MORE if thorough else alpha.B32
    for imm in (0, 1, -1, 4, -4, 2047, -2048, 12, 3):
        for rd, rs1 in ((ra, rb), (ra, ra), (0, rb), (rb, 0)):
            for at in (0, 8, 16380):
                for v in vals + [8, 9, 16, 16380, 16381]:
                    yield (op, rd, rs1, 0, imm), {ra: v, rb: v}, {}, at


FLOATS = [0x00000000, 0x80000000, 0x00000001, 0x007FFFFF, 0x00800000, 0x7F800000, 0xFF800000, 0x7FC00000,
          0xFFC00001, 0x3DCCCCCD, 0x3F800000, 0xBF800000, 0x7F7FFFFF, 0x40490FDB, 0x4B800000, 0x501502F9]
STRINGS = [b"", b"A", b"Hi", b"abc", b"\x80", b"\xff\x7f", b"a\x80b", b"\x01\x1f "]


def gen_ecall(op, seed, thorough):
    ins = ("ecall", 0, 0, 0, 0)
    for code in (1, 11, 34, 35, 36, 93, 10):
        for v in (alpha.B32_MORE if thorough else alpha.B32):
            yield ins, {17: code, 10: v}, {}, 0
    for v in FLOATS + alpha.B32:
        yield ins, {17: 2, 10: v}, {}, 0
    for code in (0, 3, 5, 9, 12, 33, 37, 92, 94, 0xFFFFFFFF, 0x80000001, 1 + (1 << 8)):
        for v in (0, 7):
            yield ins, {17: code, 10: v}, {}, 4
    for s in STRINGS:
        for off in (0, 1, 2, 3):
            data = s + b"\x00"
            words = {}
            for i, byte in enumerate(data):
                a = BASE + 8 + off + i
                words[a & ~3] = words.get(a & ~3, 0) | (byte << (8 * (a & 3)))
            # neighbours non-zero so that an overrun is visible
            words[BASE + 4] = 0x58585858
            last = (BASE + 8 + off + len(data) - 1) & ~3
            words[last + 4] = 0x59595959
            yield ins, {17: 4, 10: BASE + 8 + off}, words, 0
    # string running into the end of memory (wraps to address 0 -> fault) and starting below the data range
    yield ins, {17: 4, 10: 0xFFFFFFFE}, {0xFFFFFFFC: 0x41420000}, 0
    yield ins, {17: 4, 10: BASE - 1}, {}, 0
    yield ins, {17: 4, 10: 0}, {}, 0


CLASSES = [
    ("rtype", gen_rtype, sorted(rv32.ALU)),
    ("itype", gen_itype, [o for o in sorted(rv32.IALU) if o not in rv32.SHIFTS]),
    ("shift", gen_shift, list(rv32.SHIFTS)),
    ("load", gen_load, sorted(rv32.LD)),
    ("store", gen_store, sorted(rv32.ST)),
    ("branch", gen_branch, sorted(rv32.BR)),
    ("utype", gen_utype, ["lui", "auipc"]),
    ("jal", gen_jal, ["jal"]),
    ("jalr", gen_jalr, ["jalr"]),
    ("ecall", gen_ecall, ["ecall"]),
]
GEN = {name: g for name, g, _ in CLASSES}


def sweep_shard(shard):
    cls, op, seed, thorough, part, parts = shard
    p = Partial()
    for i, (ins, regs, words, at) in enumerate(GEN[cls](op, seed, thorough)):
        if i % parts != part:
            continue
        exp, bad = check_insn(ins, regs, words, at)
        p.evaluations += 1
        # non-trivial: the instruction changed a register, memory, output, exit code, took a control transfer or faulted
        if exp.err is not None:
            p.counters["fault"] += 1
            p.nontrivial += 1
        elif exp.events or exp.mem != _img(words) or any(exp.regs[k] != (regs.get(k, 0) & M) for k in range(1, 32)):
            p.nontrivial += 1
            for e in exp.events:
                p.counters[e] += 1
        if i < 2 and part == 0:
            p.sample(insn_case(ins, regs, words, at))
        for f, d in bad:
            p.violation(dict(oracle="single-step", op=ins[0], field=f), insn_case(ins, regs, words, at),
                        f"{rv.ins_text(ins)} at {at} regs={ {k: hex(v) for k, v in regs.items()} }: {d}", size=(1, i))
    return p


def _img(words):
    img = {}
    for a, w in words.items():
        for i in range(4):
            b = (w >> (8 * i)) & 0xFF
            if b:
                img[a + i] = b
    return img


# ------------------------------------------------------------------------------------------------
# (a') producer -> consumer chains: whatever an instruction leaves in a register must behave as a 32-bit value
# in every kind of consumer (a result that is only *numerically* right immediately after the producer is not enough)
# ------------------------------------------------------------------------------------------------
def producers(seed):
    """(instruction, initial registers, initial words): one or more operand settings per register-writing mnemonic,
    chosen so that results include 0, 1, values with bit 7 / 15 / 31 set and all-ones."""
    ra, rb = _regs(seed)
    rd = 14
    out = []
    pairs = [(0xC8, 0x64), (0x64, 0xC8), (0xFFFFFFFF, 1), (0x80000000, 0x80000000), (0xFFFFFF38, 0xFFFFFF9C), (5, 5), (0x8000, 0xFFFF)]
    for op in sorted(rv32.ALU):
        for a, b in pairs:
            out.append(((op, rd, ra, rb, 0), {ra: a, rb: b}, {}))
    for op in sorted(rv32.IALU):
        for a in (0xC8, 0xFFFFFFFF, 0x80000000, 0):
            for imm in ((31, 1, 7) if op in rv32.SHIFTS else (-1, 100, -200, 0x7FF)):
                out.append(((op, rd, ra, 0, imm), {ra: a}, {}))
    for op in sorted(rv32.LD):
        for w in (0x80C8FFC8, 0x00000000, 0x7F80FF64, 0xFFFFFFFF):
            for off in (0, 1, 2):
                n = rv32.LD[op][0]
                if (off % 4) + n <= 4:
                    out.append(((op, rd, rb, 0, off), {rb: BASE + 16}, {BASE + 16: w}))
    for imm in (0, 1, 0x80000, 0xFFFFF, 0x12345):
        out.append((("lui", rd, 0, 0, imm), {}, {}))
        out.append((("auipc", rd, 0, 0, imm), {}, {}))
    return out


def consumers(rd):
    """Instruction sequences that consume register rd in every role: both ALU operands, shift amount and shifted value,
    store data of every width, address base, branch operand, multiplication / division operand."""
    t, u, base = 15, 16, 20
    return [
        [("add", t, rd, rd, 0)], [("sub", t, 0, rd, 0)], [("sub", t, rd, u, 0)], [("mul", t, rd, rd, 0)], [("mulhu", t, rd, rd, 0)],
        [("slli", t, rd, 0, 31), ("slli", t, t, 0, 1)], [("sll", t, u, rd, 0)], [("srl", t, rd, u, 0)], [("sra", t, rd, u, 0)], [("srai", t, rd, 0, 4)],
        [("sb", 0, base, rd, 0), ("lw", t, base, 0, 0)], [("sh", 0, base, rd, 0), ("lw", t, base, 0, 0)], [("sw", 0, base, rd, 0), ("lw", t, base, 0, 0)],
        [("xori", t, rd, 0, -1)], [("sltu", t, u, rd, 0)], [("slt", t, rd, u, 0)], [("div", t, rd, u, 0)], [("remu", t, u, rd, 0)],
        [("beq", 0, rd, u, 8), ("addi", t, 0, 0, 1), ("addi", t, t, 0, 2)], [("bltu", 0, u, rd, 8), ("addi", t, 0, 0, 1), ("addi", t, t, 0, 2)],
        [("add", t, rd, base, 0), ("andi", t, t, 0, -4), ("lw", t, t, 0, 0)],
        [("add", t, rd, rd, 0), ("add", t, t, t, 0), ("sub", t, 0, t, 0), ("sh", 0, base, t, 2), ("lw", t, base, 0, 0)],
    ]


def chain_shard(shard):
    seed, part, parts = shard
    p = Partial()
    prods = producers(seed)
    rd = 14
    cons = consumers(rd)
    k = 0
    for ins, regs, words in prods:
        for ci, c in enumerate(cons):
            k += 1
            if k % parts != part:
                continue
            for uval in (3, 0xFFFFFFFF):
                prog = [ins] + c
                rg = dict(regs)
                rg.update({16: uval, 20: BASE + 64})
                wd = dict(words)
                wd.update({BASE + 64: 0x5A5A5A5A})
                exp, bad = check_prog(prog, rg, wd, len(prog) + 2)
                p.evaluations += 1
                p.nontrivial += 1
                p.counters["producer-consumer-chain"] += 1
                for f, d in bad:
                    p.violation(dict(oracle="program", field=f, chain=True), prog_case(prog, rg, wd, len(prog) + 2),
                                f"[{rv.prog_text(prog)}] regs={ {r: hex(v) for r, v in rg.items()} }: {d}", size=(len(prog), k))
    if part == 0:
        p.sample(prog_case([prods[3][0]] + cons[10], prods[3][1], prods[3][2], 5))
    return p


# ------------------------------------------------------------------------------------------------
# (b) programs over the hazard alphabets
# ------------------------------------------------------------------------------------------------
def prog_shard(shard):
    seed, big, length, first, nstates, steps, only_extra = shard
    H = alpha.hazard_alphabet(seed, big)
    n18 = 18
    states = alpha.init_states(seed, nstates)
    p = Partial()
    rest = itertools.product(range(len(H)), repeat=length - 1)
    for tail in rest:
        idx = (first,) + tail
        if only_extra and all(i < n18 for i in idx):
            continue
        prog = [H[i] for i in idx]
        for si, st in enumerate(states):
            exp, bad = check_prog(prog, st["regs"], st["words"], steps)
            p.evaluations += 1
            if exp.events:
                p.nontrivial += 1
                for e in exp.events:
                    p.counters[e] += 1
            if exp.steps >= steps:
                p.counters["horizon"] += 1
            for f, d in bad:
                p.violation(dict(oracle="program", field=f), prog_case(prog, st["regs"], st["words"], steps),
                            f"[{rv.prog_text(prog)}] init#{si}: {d}", size=(length, idx))
    if first == 0 and length <= 2:
        p.sample(prog_case([H[0]] * length, states[0]["regs"], states[0]["words"], steps))
    return p


def long_shard(shard):
    from vf.checks import c02, c07
    seed, k, ci = shard
    name, prog, _n = c07.long_programs(seed)[k]
    caches = None if ci is None else c02.CACHED[ci]
    p = Partial()
    exp, bad = check_prog(prog, c07.LONG_REGS, c07.LONG_WORDS, 6000, caches)
    p.evaluations += 1
    p.nontrivial += 1
    if exp.steps > 256:
        p.counters["run-longer-than-256-instructions"] += 1
    for f, d in bad:
        p.violation(dict(oracle="program", field=f, long="run"), prog_case(prog, c07.LONG_REGS, c07.LONG_WORDS, 6000, caches),
                    f"{name} [{rv.prog_text(prog[:8])}{' ...' if len(prog) > 8 else ''}] caches {caches}: {d}", size=(len(prog), k))
    return p


STR_REGS = None


def cached_shard(shard):
    """The ISA semantics do not depend on the memory configuration: every program over the memory alphabet of C03 (loads and
    stores of every width conflicting in one cache set, a store through a negative address, print-string ecall) in single-cycle
    mode WITH data / instruction caches switched on, compared with the golden model after every step."""
    from vf.checks import c02, c03
    global STR_REGS
    if STR_REGS is None:
        STR_REGS = {**c03.PROG_REGS, 17: 4, 10: c03.BASE + 64}
    length, first = shard
    A = c03.mem_alphabet()
    p = Partial()
    for tail in itertools.product(range(len(A)), repeat=length - 1):
        idx = (first,) + tail
        prog = [A[i] for i in idx]
        # programs with an ecall are also run with a7 = 4 and a0 = a string address preset (a print-string right behind stores)
        for regs_in in ((c03.PROG_REGS, STR_REGS) if any(i[0] == "ecall" for i in prog) else (c03.PROG_REGS,)):
            for ci, caches in enumerate(c02.CACHED):
                exp, bad = check_prog(prog, regs_in, c03.PROG_WORDS, 40, caches)
                p.evaluations += 1
                p.counters["single-cycle-with-caches"] += 1
                if exp.loads + exp.stores > 1 or "print" in exp.events:
                    p.nontrivial += 1
                if "print" in exp.events and exp.stores:
                    p.counters["print-string-behind-a-store-with-caches"] += 1
                for f, d in bad:
                    p.violation(dict(oracle="program", field=f, caches="on"), prog_case(prog, regs_in, c03.PROG_WORDS, 40, caches),
                                f"[{rv.prog_text(prog)}] caches {caches}{' a7=4 a0=string' if regs_in is STR_REGS else ''}: {d}", size=(length, idx, ci))
    return p


def run(ctx):
    seed, thorough = ctx.seed, not ctx.quick
    ctx.rule = ("(a) one instruction executed by one real single-cycle step() from a prepared state, for every mnemonic in scope "
                "over aliasing patterns x boundary operands x all 4096 12-bit immediates / all shift amounts / address and "
                "alignment classes; (a') every register-writing mnemonic (several operand settings) followed by every one of 22 consumer sequences that use "
                "the result as ALU operand, shift amount, store data of each width, address, branch operand ...; (b) every program up to a length bound over the hazard alphabets H18/H28 from several initial "
                "states, compared with the golden model after every step. Non-trivial = the reference run changes a register, "
                "memory, output or exit code, transfers control, or faults. Cases are distinct by construction.")
    ctx.assumptions += [
        "print-char / print-string ecalls emit chr(v % 128); the help page only says 'ASCII'",
        "pc is compared modulo 2^32 (the simulator keeps an unbounded int)",
        "cells that a faulting store straddling the end of the address range may have written are not compared (C18 allows both)",
        "operand values come from the boundary alphabets B32/B32_MORE, not all 2^32 values",
    ]
    ctx.require("fault", "taken", "jal", "jalr", "print", "exit")
    # (a)
    t0 = time.time()
    shards = []
    for cls, _g, ops in CLASSES:
        parts = {"rtype": 4, "itype": 8, "utype": 2 if not thorough else 16}.get(cls, 1)
        if thorough and cls in ("rtype",):
            parts = 16
        for op in ops:
            for part in range(parts):
                shards.append((cls, op, seed, thorough, part, parts))
    part = pmap(sweep_shard, shards)
    ctx.space("operand-sweep", part, t0, mnemonics=sum(len(o) for _c, _g, o in CLASSES))
    t0 = time.time()
    part = pmap(chain_shard, [(seed, i, 32) for i in range(32)])
    ctx.space("producer-consumer-chains", part, t0, producers=len(producers(seed)), consumers=len(consumers(14)))
    ctx.require("producer-consumer-chain")
    # (b)
    steps = 24 if ctx.quick else 40
    nstates = 2 if ctx.quick else 4
    plan = [(False, L) for L in range(1, (3 if ctx.quick else 5) + 1)]
    plan += [(True, L) for L in range(1, (3 if ctx.quick else 4) + 1)]
    for big, L in plan:
        t0 = time.time()
        H = alpha.hazard_alphabet(seed, big)
        shards = [(seed, big, L, f, nstates, steps, big) for f in range(len(H))]
        if L >= 4:
            # split further: first two symbols
            shards = []
            for f in range(len(H)):
                shards.append((seed, big, L, f, nstates, steps, big))
        part = pmap(prog_shard, shards)
        ctx.space(f"programs-{'H30' if big else 'H18'}-len{L}", part, t0, alphabet=len(H), length=L, init_states=nstates,
                  step_horizon=steps, note="H30 spaces count only programs containing at least one extra symbol" if big else "")
    from vf.checks import c03
    for L in range(1, (3 if ctx.quick else 4) + 1):
        t0 = time.time()
        part = pmap(cached_shard, [(L, f) for f in range(len(c03.mem_alphabet()))])
        ctx.space(f"single-cycle-with-caches-len{L}", part, t0, length=L, cache_configurations=6)
    ctx.require("single-cycle-with-caches", "print-string-behind-a-store-with-caches")
    from vf.checks import c02, c07
    t0 = time.time()
    part = pmap(long_shard, [(seed, k, ci) for k in range(len(c07.long_programs(seed))) for ci in (None, 2)])
    ctx.space("long-runs", part, t0, programs=[n for n, _p, _k in c07.long_programs(seed)], note="hundreds / thousands of steps, compared with the golden model after every step")
    ctx.require("run-longer-than-256-instructions")
    ctx.extra["bounds"] = dict(program_length_H18=3 if ctx.quick else 5, program_length_H30=3 if ctx.quick else 4, step_horizon=steps)
