"""C19 — TOY encoding round-trips and the TOY assembler places code, data and labels (ENUM)."""
from __future__ import annotations

import itertools
import time

from architecture_simulator.isa.toy import toy_instructions as TI
from architecture_simulator.isa.toy.toy_instructions import ToyInstruction
from architecture_simulator.simulation.toy_simulation import ToySimulation

from vf.adapt import toy
from vf.checks import freshcmp
from vf.engine.core import Partial, pmap, watchdog, CaseTimeout
from vf.ref.toy import MN, ToyRef, decode

ID = "C19"
LEVEL = "exploration"


# ---- encoding ------------------------------------------------------------------------------------------
def encoding_shard(shard):
    lo, hi = shard
    p = Partial()
    for w in range(lo, hi):
        ins = ToyInstruction.from_integer(w)
        op, addr = decode(w)
        p.evaluations += 1
        if op != (w >> 12):
            p.nontrivial += 1
            p.counters["opcode-above-12"] += 1
        elif addr:
            p.nontrivial += 1
        bad = None
        if ins.mnemonic != MN[op] or ins.op_code_value() != op:
            bad = f"decodes to {ins.mnemonic} (opcode {ins.op_code_value()}), expected {MN[op]} ({op})"
        elif ins.address_section_value() != addr or ins.address != addr:
            bad = f"address field {ins.address_section_value()}, expected {addr}"
        elif int(ins) != ((op << 12) | addr):
            bad = f"re-encodes to {int(ins):#06x}, expected {((op << 12) | addr):#06x}"
        elif ToyInstruction.from_integer(int(ins)) != ins:
            bad = "decode(encode(instruction)) is not equal to the instruction"
        elif repr(ins) != (f"{MN[op]} 0x{addr:03X}" if op < 8 else MN[op]):
            bad = f"printed as {ins!r}"
        if bad:
            p.violation(dict(oracle="toy-encoding", field="decode"), dict(kind="word", w=w), f"word {w:#06x}: {bad}", size=(w,))
    return p


def constructor_shard(shard):
    p = Partial()
    for op, name in enumerate(MN):
        C = TI.instruction_map[name]
        for a in range(4096):
            ins = C(address=a) if op < 8 else (C() if a == 0 else C(address=a))
            p.evaluations += 1
            if a:
                p.nontrivial += 1
            w = int(ins)
            back = ToyInstruction.from_integer(w)
            if w != ((op << 12) | a) or back != ins or type(back) is not C or back.address != a or not (0 <= w < 65536):
                p.violation(dict(oracle="toy-encoding", field="encode"), dict(kind="ctor", op=op, a=a), f"{name}({a}) encodes to {w:#x}, decodes to {back!r}", size=(op, a))
    # out-of-range constructor arguments are reduced modulo 4096
    for a in (4096, 4097, 8191, -1, 65536 + 5):
        ins = TI.LDA(a)
        p.evaluations += 1
        if int(ins) != (1 << 12) | (a % 4096):
            p.violation(dict(oracle="toy-encoding", field="encode"), dict(kind="ctor", op=1, a=a), f"LDA({a}) encodes to {int(ins):#x}", size=(99, a))
    p.sample(dict(kind="ctor", op=3, a=4095))
    return p


# ---- assembler -----------------------------------------------------------------------------------------
INS_CHOICES = ["n:INC", "n:not", "a:LDA:dec", "a:sto:hex", "a:BRZ:label", "a:ADD:var", "a:Xor:var2"]
PLACEMENTS = ("none", "alone", "inline")
FRAMINGS = ("none", "text-first", "data-first", "data-last")


def render(items, end_label, decls, framing, refs, size=4096):
    """items: list of (placement, ins-choice); refs: per item index of the label / variable it refers to.
    Returns (text, expected instruction words, expected data cells, max_pc) or None if not well-formed."""
    label_addr = {}
    labels = []
    n = 0
    for i, (pl, _c) in enumerate(items):
        if pl != "none":
            name = f"L{i}"
            labels.append(name)
            label_addr[name] = n
        n += 1
    if end_label:
        labels.append("Lend")
        label_addr["Lend"] = n
    var_addr = {}
    cells = {}
    top = size - 1
    for k, vals in enumerate(decls):
        top -= len(vals)
        var_addr[f"v{k}"] = top + 1
        for j, v in enumerate(vals):
            cells[top + 1 + j] = v & 0xFFFF
    lines = []
    words = []
    for i, (pl, choice) in enumerate(items):
        parts = choice.split(":")
        if parts[0] == "n":
            txt = parts[1]
            w = (MN.index(parts[1].upper()) << 12)
        else:
            mn, kind = parts[1], parts[2]
            op = MN.index(mn.upper())
            if kind == "dec":
                operand, val = "5", 5
            elif kind == "hex":
                operand, val = "0x0fF", 0xFF
            elif kind == "label":
                if not labels:
                    return None
                name = labels[refs[i] % len(labels)]
                operand, val = name, label_addr[name]
            else:
                if not var_addr:
                    return None
                name = f"v{(refs[i] + (1 if kind == 'var2' else 0)) % len(var_addr)}"
                operand, val = name, var_addr[name]
            txt = f"{mn} {operand}"
            w = (op << 12) | val
        if pl == "alone":
            lines.append(f"L{i}:")
            lines.append("    " + txt)
        elif pl == "inline":
            lines.append(f"L{i}: {txt}")
        else:
            lines.append(txt)
        words.append(w)
    if end_label:
        lines.append("Lend:")
    dlines = []
    for k, vals in enumerate(decls):
        dlines.append(f"  v{k}: .word " + ", ".join((hex(v) if (j + k) % 2 else str(v)) for j, v in enumerate(vals)))
    if framing == "none":
        if decls:
            return None
        text = "\n".join(lines)
    elif framing == "text-first":
        text = "\n".join([".text"] + lines + ([".data"] + dlines if decls else []))
    elif framing == "data-first":
        if not decls:
            return None
        text = "\n".join([".data"] + dlines + [".text"] + lines)
    else:  # data-last, no .text directive: every line before .data is code
        if not decls:
            return None
        text = "\n".join(lines + [".data"] + dlines)
    return text + "\n", words, cells, len(words) - 1


# a program that declares the generator's label / variable names and is rejected: a later load must not see anything of it
REJECTED = ".data\nv0: .word 9\nv1: .word 8, 8\n.text\nL0: INC\nL1:\nL2: DEC\nLend:\nBRZ nowhere\n"


def check_text(text, words, cells, max_pc, after_rejected=False, size=4096):
    sim = ToySimulation() if size == 4096 else ToySimulation(unified_memory_size=size)
    if after_rejected:
        try:
            sim.load_program(REJECTED)
        except Exception:  # noqa (it is meant to be rejected; C15 decides how)
            pass
    try:
        with watchdog(10):
            sim.load_program(text)
    except CaseTimeout:
        return "load_program did not terminate within 10 s"
    except Exception as e:  # noqa
        return f"load_program raised {type(e).__name__}: {e!r}"
    st = sim.state
    rng = st.memory.get_address_range()
    if (rng.start, rng.stop) != (0, size):
        return f"the memory of a simulation created with {size} words has addresses {rng.start}..{rng.stop - 1} after load_program"
    if st.max_pc != max_pc:
        return f"max_pc {st.max_pc}, expected {max_pc}"
    exp = {i: w for i, w in enumerate(words)}
    exp.update(cells)
    got = {a: int(v) for a, v in toy._cells(sim)}
    for a in sorted(set(exp) | set(got)):
        if got.get(a, 0) != exp.get(a, 0):
            return f"memory[{a:#05x}] = {got.get(a, 0):#06x}, expected {exp.get(a, 0):#06x}"
    if words and (st.loaded_instruction is None or int(st.loaded_instruction) != words[0]):
        return "first instruction is not loaded"
    return None


DECLS = [(), ((7,),), ((7, 0x00F, 3),), ((1, 2), (0xFFFF,)), ((3,), (4, 5, 6)), ((4, 0, 6),), ((0, 0, 1), (0,))]


DECOR = [" # form\x0cfeed", " # line\u2028separator x", " # plain comment", " ## two hashes", "  # see issue #12 # and more", "\t# tab before", " #", "   ", "", " # LDA 5", " #: label-like:"]


def decorate(text, k):
    out = ["# header, item #1", ""]
    for i, line in enumerate(text.split("\n")[:-1]):
        out.append(("\t" if (i + k) % 4 == 0 else "") + line + DECOR[(i + k) % len(DECOR)])
        if (i + k) % 5 == 0:
            out.append("   # a line of its own ## with hashes")
    return "\n".join(out) + "\n"


def asm_shard(shard):
    length, first, framing_set = shard[:3]
    size = shard[3] if len(shard) > 3 else 4096
    p = Partial()
    choices = [(pl, c) for pl in PLACEMENTS for c in INS_CHOICES]
    for tail in itertools.product(range(len(choices)), repeat=length - 1):
        items = [choices[first]] + [choices[i] for i in tail]
        nref = sum(1 for _pl, c in items if c.endswith("label") or "var" in c)
        for end_label in (False, True):
            for decls in DECLS:
                for framing in framing_set:
                    # reference targets: every referencing item points to target r, r+1, ... (all rotations)
                    nlabels = sum(1 for pl, _c in items if pl != "none") + int(end_label)
                    rots = range(max(1, max(nlabels, len(decls)))) if nref else (0,)
                    for r in rots:
                        refs = [r + i for i in range(length)]
                        out = render(items, end_label, decls, framing, refs, size)
                        if out is None:
                            continue
                        text, words, cells, max_pc = out
                        p.evaluations += 1
                        if size != 4096 and decls:
                            p.counters["data-in-a-memory-of-another-size"] += 1
                        if nref:
                            p.nontrivial += 1
                        if any(pl == "inline" for pl, _c in items):
                            p.counters["inline-label"] += 1
                        if decls and framing == "data-first":
                            p.counters["data-before-text"] += 1
                        fwd = any((c.endswith("label")) for _pl, c in items) and end_label
                        if fwd:
                            p.counters["forward-reference-possible"] += 1
                        after = (p.evaluations % 2 == 0)
                        if after:
                            p.counters["loaded-after-a-rejected-program"] += 1
                        if p.evaluations % 3 == 1:
                            # the same program with comments (also ones that contain further '#'), blank lines, tabs and trailing blanks
                            text = decorate(text, p.evaluations)
                            p.counters["decorated-with-comments"] += 1
                        d = check_text(text, words, cells, max_pc, after, size)
                        if d:
                            p.violation(dict(oracle="toy-assembler", field="layout"), dict(kind="toy-text", text=text, words=words, cells={str(k): v for k, v in cells.items()}, max_pc=max_pc, after=after, size=size),
                                        f"{text!r}{'' if size == 4096 else f' in a memory of {size} words'}: {d}", size=(length, len(text)))
    if first == 0:
        out = render([("inline", "a:BRZ:label"), ("alone", "a:ADD:var")], True, DECLS[2], "data-first", [1, 0])
        p.sample(dict(kind="toy-text", text=out[0]))
    return p


EX1 = """# computes the sum of the numbers from 1 to n
.data
    n: .word 10 # enter n here
    result: .word 0
.text
    LDA n # skip to the end if n=0
    BRZ end
    loop:
        LDA result
        ADD n
        STO result
        LDA n
        DEC
        STO n
        BRZ end
        ZRO
        BRZ loop
    end:
"""
EX2 = """# store second value of my_tuple in my_value
.data
    my_tuple: .word 3, 4
    my_value: .word 0
.text
    LDA my_load_instruction     # load 'LDA my_tuple' (LDA 0xFFE) into accu
    INC                         # increment address in LDA instruction
    STO my_load_instruction     # store 'LDA 0xFFF' at my_load_instruction
    my_load_instruction:        # this label points to the memory location of LDA instruction
    LDA my_tuple                # actually load data at my_tuple + 1 (=0xFFF)
    STO my_value                # store value of second tuple entry at my_value (0xFFD)
"""
EX3 = """.data
    my_array: .word 7, 0x00F, 3 # my_array points to the address of the first element of the array
    my_var: .word 7
    my_result: .word 0
.text
    # check if the first element of my_array is equal to my_var and store result in my_result
    LDA my_array
    SUB my_var
    BRZ true
    ZRO
    BRZ end
    true:
        INC
        STO my_result
    end:
"""
# (text, cell holding the documented result, documented value)
EXAMPLES = [(EX1, 4094, 55), (EX2, 4093, 4), (EX3, 4091, 1)]


def example_check(i):
    text, cell, value = EXAMPLES[i]
    sim = ToySimulation()
    sim.load_program(text)
    n = 0
    while not sim.is_done() and n < 2000:
        sim.step()
        n += 1
    got = int(sim.state.memory.read_halfword(cell))
    if not sim.is_done() or got != value:
        return f"help-page example {i + 1}: done={sim.is_done()} result cell {cell:#x} holds {got}, documented {value}"
    return None


def exact_fit_case(size, ninstr):
    """A program whose code and data fill a memory of `size` words exactly: ninstr instructions + (size - ninstr) data words."""
    ndata = size - ninstr
    vals = [(0x1111 * (k + 1)) & 0xFFFF for k in range(ndata)]
    lines = ["INC"] * (ninstr - 1) + ["LDA d"] if ndata else ["INC"] * ninstr
    text = "\n".join(lines) + ("\n.data\nd: .word " + ", ".join(str(v) for v in vals) if ndata else "") + "\n"
    words = [MN.index("INC") << 12] * (ninstr - 1) + [(MN.index("LDA") << 12) | (size - ndata)] if ndata else [MN.index("INC") << 12] * ninstr
    cells = {size - ndata + k: v for k, v in enumerate(vals)}
    return text, words, cells


def exact_fit_shard(shard):
    size = shard
    p = Partial()
    for ninstr in range(1, size + 1):
        text, words, cells = exact_fit_case(size, ninstr)
        p.evaluations += 1
        p.nontrivial += 1
        p.counters["program-filling-the-memory-exactly"] += 1
        d = check_text(text, words, cells, ninstr - 1, False, size)
        if d:
            p.violation(dict(oracle="toy-assembler", field="exact-fit"), dict(kind="toy-text", text=text, words=words, cells={str(k): v for k, v in cells.items()}, max_pc=ninstr - 1, after=False, size=size),
                        f"{ninstr} instructions + {size - ninstr} data words in a memory of {size} words: {d}", size=(size, ninstr))
    return p


FRESH_TEXTS = [EX1, EX3, "INC\n.data\nv: .word 7\n", "l: LDA v\nBRZ l\nNOP\nSTO w\n.data\nv: .word 1, 2\nw: .word 0x0FF\n", "NOP\nnop\nx: NOP\nBRZ x\n"]


def fresh_items():
    """What the process did before (a simulation with another memory size, the RISC-V assembler seeing the same lines, an
    earlier program with the same names) must not change where the TOY assembler places code, data and labels."""
    out = []
    for t in FRESH_TEXTS:
        for prelude in ([["toy_new", 64]], [["toy_new", 1000], ["toy_new", 16]], [["rv_load", t]], [["rv_load", "NOP\nnop\nx: NOP\nl: nop\nbeq x0, x0, x\n"]],
                        [["toy_run", "l: INC\nx: DEC\n.data\nv: .word 9, 9, 9\nn: .word 1\n"]], [["rv_new", "single_stage_pipeline", False], ["toy_load", "LDA nowhere\n"]]):
            out.append(("toy-assembler-history", prelude, ["toy_image", t]))
    return out


def replay(case):
    k = case["kind"]
    if k == "fresh":
        return freshcmp.replay(case)
    if k in ("toy-reload", "toy-size"):
        from vf.checks import toyreload
        return toyreload.replay(case, ("placement-after-reload",))
    if k == "word":
        part = encoding_shard((case["w"], case["w"] + 1))
    elif k == "ctor":
        part = constructor_shard(0)
    elif k == "example":
        d = example_check(case["i"])
        return [(dict(oracle="toy-assembler", field="example"), d)] if d else []
    else:
        d = check_text(case["text"], case["words"], {int(a): v for a, v in case["cells"].items()}, case["max_pc"], case.get("after", False), case.get("size", 4096))
        return [(dict(oracle="toy-assembler", field="layout"), d)] if d else []
    return [(lst[0][1], lst[0][3]) for _k, (n, lst) in part.viol.items()]


def run(ctx):
    ctx.rule = ("Encoding: all 65 536 words decode to the instruction of opcode min(op,12) with the low 12 bits as address and re-encode to the same word "
                "(0xC000|address above 12); every constructor x all 4096 addresses round-trips. Assembler: every source text of up to 2 (3) instruction "
                "lines over {no-address instruction, address instruction with decimal / hex / label / variable operand} x label placement {none, stand-alone, "
                "in-line} x optional end label x every rotation of reference targets (forward, backward, self, end) x data declarations with 1-3 values (zeros included) x "
                "segment framing {none, .text first, .data first, .data last}; every other text loaded into a simulation whose previous load (of a program declaring the same names) was rejected; expected image computed from the abstract program: instruction i at address i, "
                "max_pc, data downward from 4095 (from size-1 in the same space repeated on ToySimulation(unified_memory_size=size) for several sizes; the address range after the load must be 0..size-1) in declaration order with elements ascending, every label / variable operand encoded as its address. The three "
                "help-page examples are assembled, run and must end with the documented results. Non-trivial = text with a label or variable reference.")
    t0 = time.time()
    part = pmap(encoding_shard, [(lo, lo + 4096) for lo in range(0, 65536, 4096)])
    part.merge(constructor_shard(0))
    ctx.space("encoding", part, t0)
    nchoices = len(PLACEMENTS) * len(INS_CHOICES)
    for L in range(1, (2 if ctx.quick else 3) + 1):
        t0 = time.time()
        part = pmap(asm_shard, [(L, f, FRAMINGS) for f in range(nchoices)])
        ctx.space(f"assembler-{L}-instruction-lines", part, t0, lines=L)
    t0 = time.time()
    sizes = (64, 1000, 4095) if ctx.quick else (16, 64, 256, 1000, 2048, 4095)
    part = pmap(asm_shard, [(L, f, FRAMINGS, size) for size in sizes for L in (1, 2) for f in range(nchoices)][::-1])
    ctx.space("assembler-other-memory-sizes", part, t0, sizes=list(sizes), lines=[1, 2])
    t0 = time.time()
    part = pmap(exact_fit_shard, [4, 8, 16] + ([32, 64] if not ctx.quick else []))
    ctx.space("programs-filling-the-memory-exactly", part, t0, sizes=[4, 8, 16] + ([32, 64] if not ctx.quick else []), note="every split of the memory into n instructions + (size - n) data words")
    ctx.require("program-filling-the-memory-exactly")
    t0 = time.time()
    items = fresh_items()
    part = pmap(freshcmp.shard, [items[i::16] for i in range(16) if items[i::16]])
    ctx.space("assembler-history-fresh-interpreters", part, t0, texts=len(FRESH_TEXTS), preludes=6,
              note="each scenario runs in its own interpreter; compared with the same text assembled in a pristine interpreter")
    ctx.require("fresh-interpreter-differential")
    t0 = time.time()
    part = Partial()
    for i in range(3):
        part.evaluations += 1
        part.nontrivial += 1
        d = example_check(i)
        if d:
            part.violation(dict(oracle="toy-assembler", field="example"), dict(kind="example", i=i), d, size=(i,))
    ctx.space("help-page-examples", part, t0)
    from vf.checks import toyreload
    toyreload.run_part(ctx, ("placement-after-reload",))
    ctx.require("opcode-above-12", "inline-label", "data-before-text", "forward-reference-possible", "loaded-after-a-rejected-program", "data-in-a-memory-of-another-size", "decorated-with-comments")
