"""C06 — TOY execution matches the reference accumulator machine, including self-modification (ENUM)."""
from __future__ import annotations

import itertools
import time

from vf.adapt import toy
from vf.checks import freshcmp
from vf.engine.canon import canon
from vf.engine.core import InternalError, Partial, pmap
from vf.ref.toy import ToyRef, text

ID = "C06"
LEVEL = "exploration"
ACCUS = (0, 1, 0x7FFF, 0x8000, 0xFFFF)
CELLS = (0, 1, 0xFFFF)


DRIVES = ("step", "single", "halves", "beside")


def alphabet():
    A = []
    for op in range(16):
        for addr in ((0, 1, 2, 4095) if op < 8 else (0,)):
            A.append((op << 12) | addr)
    return A


def compare_run(words, data, accu, steps, light=False, drive="step"):
    """Step the real simulation and the reference together. Returns (ref, [(field, detail)])."""
    sim = toy.make_toy(words, data, accu)
    ref = ToyRef(words, data, accu)
    bad = []
    comp = None
    if drive == "beside":
        # a second, independent simulation is alive and advanced in alternation: same opcodes, other addresses, other accu
        comp = toy.make_toy([(w & 0xF000) | ((w + 0x7F3) & 0xFFF) for w in words] + [0x1FF0, 0x2FF1, 0x3FF2], {}, 1 - (accu & 1))
    if toy.snapshot(sim) != ref.snapshot():
        return ref, [("initial", f"initial state {toy.snapshot(sim)[:6]} vs reference {ref.snapshot()[:6]}")]
    n = 0
    while n < steps:
        d_impl, d_ref = sim.is_done(), ref.done()
        if d_impl != d_ref:
            bad.append(("termination", f"after {n} steps: simulator done={d_impl}, reference done={d_ref}"))
            break
        if d_ref:
            break
        try:
            if drive == "step":
                r = sim.step()
            elif drive == "single":
                sim.single_step()
                sim.single_step()
                r = not sim.is_done()
            elif drive == "beside":
                for _half in (0, 1):
                    sim.single_step()
                    if not comp.is_done():
                        comp.single_step()
                r = not sim.is_done()
            else:
                sim.first_cycle_step()
                sim.second_cycle_step()
                r = not sim.is_done()
        except Exception as e:  # noqa
            bad.append(("exception", f"step {n + 1}: {type(e).__name__}: {e}"))
            break
        ref.step()
        n += 1
        if light and n % 1024 and n < steps - 16:
            st = sim.state
            a = (int(st.accu), int(st.program_counter), None if st.loaded_instruction is None else int(st.loaded_instruction),
                 st.performance_metrics.instruction_count, st.performance_metrics.cycles, st.performance_metrics.branch_count, ())
            b = ref.snapshot.__func__(_Light(ref))
        else:
            a, b = toy.snapshot(sim), ref.snapshot()
        if a != b:
            names = ("accu", "pc", "ir", "instruction_count", "cycles", "branch_count", "memory")
            k = next(i for i in range(7) if a[i] != b[i])
            bad.append((names[k], f"after step {n}: {names[k]} simulator {str(a[k])[:80]} reference {str(b[k])[:80]}"))
            break
        if r != (not ref.done()):
            bad.append(("step-return", f"step {n} returned {r}, reference done={ref.done()}"))
            break
    return ref, bad


class _Light:
    """View of a ToyRef without the memory image (long runs compare memory every 1024 steps and at the end)."""

    def __init__(self, ref):
        self.accu, self.nxt, self.ir, self.count, self.cycles, self.branches, self.mem = ref.accu, ref.nxt, ref.ir, ref.count, ref.cycles, ref.branches, {}


def case_of(words, data, accu, steps):
    return dict(kind="toy-run", words=list(words), data={str(k): v for k, v in data.items()}, accu=accu, steps=steps)


FRESH_TEXTS = [
    ".data\nn: .word 4\nresult: .word 0\n.text\nLDA n\nBRZ end\nloop:\nLDA result\nADD n\nSTO result\nLDA n\nDEC\nSTO n\nBRZ end\nZRO\nBRZ loop\nend:\n",
    ".data\nt: .word 3, 4\nv: .word 0\n.text\nLDA m\nINC\nSTO m\nm:\nLDA t\nSTO v\n",
    "ZRO\nBRZ 0xFFE\nINC\n",
    "LDA 4095\nNOT\nSTO 2000\nXOR 2000\nBRZ 0\n",
]


def fresh_items():
    """What the process did before must not change how a TOY program runs (each scenario in a fresh interpreter)."""
    out = []
    for t in FRESH_TEXTS:
        for prelude in ([["toy_new", 64]], [["toy_new", 100], ["rv_new", "five_stage_pipeline", True]], [["toy_run", "l: INC\nBRZ l\nDEC\nBRZ 0x800\n"]],
                        [["rv_load", t], ["toy_new", 4000]]):
            out.append(("toy-run-history", prelude, ["toy_run", t, 120]))
    return out


def replay(case):
    if case.get("kind") == "fresh":
        return freshcmp.replay(case)
    if case.get("kind") in ("toy-reload", "toy-size", "toy-asm"):
        from vf.checks import toyreload
        return toyreload.replay(case, ("execution-after-reload",))
    data = {int(k): v for k, v in case["data"].items()}
    _r, bad = compare_run(case["words"], data, case["accu"], case["steps"], case.get("light", False), case.get("drive", "step"))
    return [(dict(oracle="toy-reference", field=f), f"[{'; '.join(text(w) for w in case['words'][:8])}] accu={case['accu']}: {d}") for f, d in bad]


def word_shard(shard):
    lo, hi = shard
    p = Partial()
    for w in range(lo, hi):
        addr = w & 0xFFF
        for accu in ACCUS:
            for cell in CELLS:
                for plen in (1, 2):
                    words = [w] + ([0x9000] if plen == 2 else [])
                    data = {}
                    if addr >= plen:
                        data[addr] = cell
                    elif cell != CELLS[0]:
                        continue  # the operand is the program itself: only one variant
                    ref, bad = compare_run(words, data, accu, 3)
                    p.evaluations += 1
                    if ref.events or ref.accu != accu or ref.mem.get(addr, 0) != data.get(addr, words[addr] if addr < plen else 0):
                        p.nontrivial += 1
                    for e in ref.events:
                        p.counters[e] += 1
                    for f, d in bad:
                        p.violation(dict(oracle="toy-reference", field=f), case_of(words, data, accu, 3),
                                    f"word {w:#06x} ({text(w)}) accu={accu:#x} cell={cell:#x} len={plen}: {d}", size=(1, w, accu, cell))
    if lo == 0:
        p.sample(case_of([0x3005], {5: 0xFFFF}, 1, 3))
    return p


def prog_shard(shard):
    length, firsts, steps = shard
    A = alphabet()
    p = Partial()
    for tail in itertools.product(range(len(A)), repeat=length - len(firsts)):
        idx = tuple(firsts) + tail
        words = [A[i] for i in idx]
        for accu in (0, 1):
            # every instruction counts once and costs two cycles however it is driven: whole steps, single cycles, explicit halves
            for drive in (DRIVES if length <= 2 else (DRIVES[(sum(idx) + accu) % 4], "beside")):
                ref, bad = compare_run(words, {4095: 0x2001, 2: words[2] if len(words) > 2 else 0x9000}, accu, steps, drive=drive)
                p.evaluations += 1
                p.counters["driven-by-" + drive] += 1
                if ref.events:
                    p.nontrivial += 1
                    for e in ref.events:
                        p.counters[e] += 1
                if not ref.done():
                    p.counters["horizon"] += 1
                for f, d in bad:
                    p.violation(dict(oracle="toy-reference", field=f), dict(case_of(words, {4095: 0x2001, 2: words[2] if len(words) > 2 else 0x9000}, accu, steps), drive=drive),
                                f"[{'; '.join(text(w) for w in words)}] accu={accu} driven by {drive}: {d}", size=(length, idx, accu))
    return p


def wrap_shard(shard):
    p = Partial()
    for last in (shard,):
        for accu in (0, 1):
            words = [0xC000] * 4095 + [last]
            ref, bad = compare_run(words, {}, accu, 4096 + 12, light=True)
            p.evaluations += 1
            p.nontrivial += 1
            for e in ref.events:
                p.counters[e] += 1
            for f, d in bad:
                p.violation(dict(oracle="toy-reference", field=f), dict(case_of(words, {}, accu, 4096 + 12), light=True), f"4096-word program ending in {text(last)}: {d}", size=(4096, last, accu))
    return p


def run(ctx):
    ctx.rule = ("(a) every 16-bit word as the first instruction x accu in {0,1,0x7FFF,0x8000,0xFFFF} x operand cell in {0,1,0xFFFF} x program length {1,2}, one "
                "whole step (incl. words addressing themselves, the next instruction and 4095; opcodes 13-15 placed directly in memory); (b) every program up "
                "to a length bound over a 40-word alphabet (each opcode 0..15 x address in {0,1,2,4095}) from accu in {0,1}, driven by whole steps, by single cycles, by explicit half cycles, and by single cycles in alternation with a second independent simulation (same opcodes, other addresses) that must not influence it, to a horizon; (c) a "
                "4096-word program run across the 4095 -> 0 wrap. After every step accu, pc, instruction register, the whole memory, cycles == 2 x "
                "instructions, instruction and branch counts and step()'s return value are compared with the reference machine. Non-trivial = the reference "
                "run changes accu or memory, takes a branch, modifies the program or wraps.")
    ctx.assumptions += ["simulations are built from word lists exactly as the assembler leaves them (checked against load_program on a sample)"]
    # the direct construction equals what the assembler produces
    from architecture_simulator.simulation.toy_simulation import ToySimulation
    s1 = ToySimulation()
    s1.load_program("LDA 0x005\nINC\nSTO 4095\nBRZ 0\n")
    s2 = toy.make_toy([0x1005, 0x9000, 0x0FFF, 0x2000])
    if canon(s1.state) != canon(s2.state):
        raise InternalError("make_toy() no longer builds the state the assembler builds")
    t0 = time.time()
    part = pmap(word_shard, [(lo, lo + 512) for lo in range(0, 65536, 512)])
    ctx.space("all-65536-words-one-step", part, t0)
    steps = 60
    n = len(alphabet())
    for L in range(1, (3 if ctx.quick else 4) + 1):
        t0 = time.time()
        shards = [(L, (f,), steps) for f in range(n)] if L < 4 else [(L, (f, g), steps) for f in range(n) for g in range(n)]
        part = pmap(prog_shard, shards)
        ctx.space(f"programs-len{L}", part, t0, alphabet=n, length=L, step_horizon=steps)
    t0 = time.time()
    part = pmap(wrap_shard, [0x2000, 0x9000, 0x2FFF, 0x0FFF, 0x2005, 0x1FFF])
    ctx.space("pc-wrap-4096-words", part, t0)
    t0 = time.time()
    items = fresh_items()
    part = pmap(freshcmp.shard, [items[i::16] for i in range(16) if items[i::16]])
    ctx.space("run-history-fresh-interpreters", part, t0, programs=len(FRESH_TEXTS), preludes=4,
              note="each scenario runs in its own interpreter; compared with the same program run in a pristine interpreter")
    ctx.require("fresh-interpreter-differential")
    from vf.checks import toyreload
    toyreload.run_part(ctx, ("execution-after-reload",))
    ctx.require("self-modify", "taken", "branch-out", "pc-wrap", "horizon", "driven-by-single", "driven-by-halves", "driven-by-beside")
