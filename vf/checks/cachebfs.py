"""Explicit-state BFS over access histories of a real data-cache memory system (C03, C09, C10, C12).

The object under exploration is RiscvSimulation(data_cache=CacheOptions(...)).state.memory; successors are
computed by replaying the history on a fresh object. Oracles (selected per property through `want`):
  transparency  — every accepted read returns the flat-store value; crossing accesses raise; after every
                  transition all universe bytes read back equal the flat store                      (C03)
  accounting    — d(accesses), d(hits), last_hit, d(cycles) equal the reference cache; resident-set
                  look-ahead                                                                        (C09)
  policy        — way-by-way tags and replacement_status of cache_repr() equal the reference          (C10)
  coherence     — write-through / write-back invariants between backing memory, resident blocks and
                  the logical contents                                                              (C12)
"""
from __future__ import annotations

import pickle
import time

from architecture_simulator.simulation.riscv_simulation import RiscvSimulation

from vf.adapt import rv
from vf.engine.bfs import bfs
from vf.engine.canon import canon
from vf.engine.core import Partial, digest
from vf.ref.cache import RefCache
from vf.ref.rv32 import MINADDR as BASE

M = 0xFFFFFFFF
WVALS = {1: (0x77, 0xA5, 0), 2: (0x5566, 0), 4: (0x11223344, 0, 0x11223344 ^ 0xFF00)}
SKIP = {"_start", "_execution_time_s", "hits", "accesses", "last_was_hit", "performance_metrics"}


class Cfg:
    """Geometry + policies + address universe + operation alphabet (all derived deterministically)."""

    def __init__(self, ib, bb, ways, kind, policy, penalty=0, alphabet="full", pre=False, variant="base", const=False):
        self.ib, self.bb, self.ways, self.kind, self.policy, self.penalty = ib, bb, ways, kind, policy, penalty
        self.alphabet, self.pre, self.variant, self.const = alphabet, pre, variant, const
        nsets = 1 << ib
        blk = 4 << bb
        way = blk * nsets
        span = (ways + 1) * way
        base = BASE if variant in ("base", "neg", "big") else ((1 << 32) - span)
        words = []  # word-aligned universe addresses (canonical, 0 <= a < 2^32)
        for t in range(ways + 1):
            for s in sorted({0, nsets - 1}):
                for w in sorted({0, (1 << bb) - 1}):
                    words.append(base + t * way + s * blk + 4 * w)
        self.words = sorted(set(words))
        # every word of every block that contains a universe word (a write-back stores whole blocks)
        self.block_words = sorted({(a & ~(blk - 1)) + 4 * i for a in self.words for i in range(blk // 4)})
        self.bytes = [a + b for a in self.words for b in range(4)]
        ops = []
        if alphabet == "full":
            # full width/offset variety on the words of the first tag; word accesses + one byte write elsewhere
            # (the data lanes depend on block/byte offset and width, the control path on tag and set)
            first = [a for a in self.words if a < base + way]
            for a in self.words:
                if a not in first:
                    ops += [("r", 4, a, 0), ("w", 4, a, 0), ("w", 1, a + 1, 1), ("u", 4, a, 0)]
                    continue
                for b in range(4):
                    for width in (1, 2, 4):
                        ops.append(("r", width, a + b, 0))
                    ops.append(("u", 1 if b else 4, a + b, 0))
                    for width in (1, 2, 4):
                        for vi in range({1: 2, 2: 1, 4: 1}[width]):
                            ops.append(("w", width, a + b, vi))
        elif alphabet == "word":
            for a in self.words:
                ops.append(("r", 4, a, 0))
                ops.append(("w", 4, a, 0))
                ops.append(("w", 1, a + 1, 1))
                ops.append(("u", 4, a, 0))
        elif alphabet == "wordz":
            # like "word", plus stores of the value 0 (word and byte) and a second word value that differs in one byte:
            # zero is where truthiness tests and "skip the zero words" optimisations go wrong
            for a in self.words:
                ops.append(("r", 4, a, 0))
                ops.append(("w", 4, a, 0))
                ops.append(("w", 4, a, 1))
                ops.append(("w", 1, a + 1, 2))
                ops.append(("w", 2, a + 2, 1))
            ops.append(("table", 4, base, 0))  # the data-memory table is looked at (an observer as an operation)
        elif alphabet == "control":
            for a in self.words:
                ops.append(("r", 4, a, 0))
                ops.append(("w", 4, a, 0))
                ops.append(("u", 4, a, 0))
        if alphabet == "control":
            for a in self.words:
                ops.append(("has", 4, a, 0))   # Cache.contains(): a presence query is not an access
            ops.append(("stats", 4, base, 0))  # the statistics are asked for (an observer as an operation)
            ops.append(("view", 4, base, 0))   # the cache table is looked at
            ops.append(("table", 4, base, 0))  # the data-memory table is looked at
        if alphabet in ("word", "control", "wordz"):
            ops.append(("reset", 4, base, 0))  # what load_program does to the memory system: everything is cleared
        if variant == "mixed":
            # the same 32-bit address written in different ways inside ONE history (negative, >= 2^32): every word of the
            # first tag also gets a read spelled a - 2^32 and a write spelled a + 2^32
            extra = []
            first = [a for a in self.words if a < base + way]
            for a in first:
                extra += [("r", 4, a, 0, -1), ("w", 4, a, 0, 1), ("r", 1, a + 2, 0, 1)]
            ops = ops + extra
        self.ops = ops
        self.blk = blk

    def spell(self, a, alias=0):
        """How the address is written in the call (aliases of the same 32-bit address)."""
        if alias:
            return a + alias * (1 << 32)
        if self.variant == "neg":
            return a - (1 << 32)
        if self.variant == "big":
            return a + (1 << 32)
        return a

    def opts(self):
        return rv.cache_opts(self.ib, self.bb, self.ways, self.kind, self.policy, self.penalty)

    def desc(self):
        return dict(index_bits=self.ib, block_bits=self.bb, ways=self.ways, kind=self.kind, policy=self.policy, penalty=self.penalty,
                    alphabet=self.alphabet, preloaded=self.pre, address_variant=self.variant, constant_data=self.const,
                    universe_words=len(self.words), operations=len(self.ops))

    def name(self):
        return (f"{self.kind}-{self.policy}-i{self.ib}b{self.bb}w{self.ways}-p{self.penalty}-{self.alphabet}"
                + ("-sparse" if self.pre == 2 else "-pre" if self.pre else "") + ("" if self.variant == "base" else "-" + self.variant) + ("-const" if self.const else ""))

    def args(self):
        return (self.ib, self.bb, self.ways, self.kind, self.policy, self.penalty, self.alphabet, self.pre, self.variant, self.const)


def preload_byte(a):
    return ((a * 37) ^ (a >> 3) ^ 0x5B) & 0xFF or 0x11


class World:
    """The real memory system plus the reference side, advanced in lock-step."""

    def __init__(self, cfg: Cfg):
        self.cfg = cfg
        self.sim = RiscvSimulation(data_cache=cfg.opts())
        self.mem = self.sim.state.memory
        self.pm = self.sim.state.performance_metrics
        self.flat = {}
        self.ref = RefCache(cfg.ib, cfg.bb, cfg.ways, cfg.kind, cfg.policy, cfg.penalty)
        self.ref_valid = True  # False once a rejected access left the residency unspecified
        self.broken = None
        if cfg.pre:
            for a in cfg.bytes:
                if cfg.pre == 2 and not (a >> 2) & 1:
                    continue  # sparse preload: only every other word exists below the cache (blocks are partly absent)
                v = preload_byte(a)
                try:
                    self.mem.write_byte(cfg.spell(a), rv.U8(v), directly_write_to_lower_memory=True)
                except Exception as e:  # noqa - a preload the uncached memory accepts must be accepted below a cache, too
                    self.broken = f"preload write_byte({cfg.spell(a):#x}, directly_write_to_lower_memory=True) raised {type(e).__name__}"
                    return
                self.flat[a] = v

    def wval(self, op):
        kind, width, a, vi = op[:4]
        if self.cfg.const:
            v = 0
            for i in range(width):
                v |= self.flat.get((a + i) & M, 0) << (8 * i)
            return v
        return WVALS[width][vi]

    def apply(self, op, checks=None):
        """Apply one operation to the real object and the reference. With checks (a list), append (field, detail)."""
        kind, width, a, vi = op[:4]
        alias = op[4] if len(op) > 4 else 0
        mem = self.mem
        if kind == "reset":
            st0 = mem.get_cache_stats() if checks is not None else None
            cyc0 = self.pm.cycles
            try:
                mem.reset()
            except Exception as e:  # noqa
                if checks is not None:
                    checks.append(("unexpected-error", f"reset() raised {type(e).__name__}: {e}"))
                return "error"
            self.flat = {}
            old = self.ref
            self.ref = RefCache(self.cfg.ib, self.cfg.bb, self.cfg.ways, self.cfg.kind, self.cfg.policy, self.cfg.penalty)
            self.ref.hits, self.ref.accesses, self.ref.last = old.hits, old.accesses, old.last
            self.ref.events = set(old.events) | {"reset"}
            self.ref_valid = True
            if checks is not None and self.pm.cycles != cyc0:
                checks.append(("penalty", f"reset() advanced the cycle counter by {self.pm.cycles - cyc0}"))
            return "ok"
        if kind == "stats":
            try:
                st = mem.get_cache_stats()
                got = (int(st["accesses"]), int(st["hits"]))
            except Exception as e:  # noqa
                got = f"{type(e).__name__}: {e}"
            if checks is not None and got != (self.ref.accesses, self.ref.hits):
                checks.append(("accesses" if not isinstance(got, tuple) or got[0] != self.ref.accesses else "hits",
                               f"get_cache_stats() (operation of the history) answers (accesses, hits) = {got}, reference {(self.ref.accesses, self.ref.hits)}"))
            return "ok"
        if kind == "has":
            try:
                from architecture_simulator.uarch.memory.decoded_address import DecodedAddress
                got = bool(mem.cache.contains(DecodedAddress(self.cfg.ib, self.cfg.bb, self.cfg.spell(a))))
            except (AttributeError, TypeError, ImportError):
                return "ok"  # no such query in this tree: nothing to observe
            except Exception as e:  # noqa
                if checks is not None:
                    checks.append(("unexpected-error", f"Cache.contains() raised {type(e).__name__}: {e}"))
                return "ok"
            if checks is not None and self.ref_valid:
                blk = a >> (2 + self.cfg.bb)
                want = (blk & ((1 << self.cfg.ib) - 1), blk >> self.cfg.ib) in self.ref.resident()
                if got != want:
                    checks.append(("resident-set", f"Cache.contains({a:#x}) answers {got}, the reference cache {'holds' if want else 'does not hold'} that block"))
            return "ok"
        if kind == "view":
            try:
                self.sim.get_data_cache_entries()  # exactly one call: the search itself decides how often it is repeated
            except Exception as e:  # noqa
                if checks is not None:
                    checks.append(("unexpected-error", f"cache_repr() raised {type(e).__name__}: {e}"))
            return "ok"
        if kind == "table":
            tmp = [] if checks is None else checks
            self.check_tables(tmp, " (operation of the history)")
            return "ok"
        crossing = (a & 3) + width > 4
        st0 = mem.get_cache_stats() if checks is not None else None
        cyc0 = self.pm.cycles
        raised = None
        val = None
        try:
            if kind in ("r", "u"):
                fn = (mem.read_byte, mem.read_halfword, None, mem.read_word)[width - 1]
                val = int(fn(self.cfg.spell(a, alias), kind == "r"))
            else:
                v = self.wval(op)
                ty = (rv.U8, rv.U16, None, rv.U32)[width - 1]
                fn = (mem.write_byte, mem.write_halfword, None, mem.write_word)[width - 1]
                fn(self.cfg.spell(a, alias), ty(v))
        except Exception as e:  # noqa
            raised = e
        if crossing:
            self.ref_valid = False
            if checks is not None and raised is None:
                checks.append(("crossing-accepted", f"{opname(op)} crosses a word boundary but was not rejected"
                               + (f" (returned {val:#x})" if val is not None else "")))
                # the reference models what the uncached memory would do, to keep the comparison meaningful afterwards
            if raised is None and kind == "w":
                v = self.wval(op)
                for i in range(width):
                    self.flat[(a + i) & M] = (v >> (8 * i)) & 0xFF
            return "rejected" if raised is not None else "accepted-crossing"
        if raised is not None:
            if checks is not None:
                checks.append(("unexpected-error", f"{opname(op)} raised {type(raised).__name__}: {raised}"))
            return "error"
        # reference side
        if kind == "w":
            v = self.wval(op)
            for i in range(width):
                self.flat[(a + i) & M] = (v >> (8 * i)) & 0xFF
        if checks is not None and kind in ("r", "u"):
            exp = 0
            for i in range(width):
                exp |= self.flat.get((a + i) & M, 0) << (8 * i)
            if val != exp:
                checks.append(("read-value", f"{opname(op)} returned {val:#x}, flat memory holds {exp:#x}"))
        if self.ref_valid:
            hit, extra, _ev = self.ref.access(a, kind == "w", kind != "u")
            if checks is not None:
                st1 = mem.get_cache_stats()
                da = int(st1["accesses"]) - int(st0["accesses"])
                dh = int(st1["hits"]) - int(st0["hits"])
                dc = self.pm.cycles - cyc0
                if kind == "u":
                    if da or dh or dc or st1["last_hit"] != st0["last_hit"]:
                        checks.append(("uncounted-counted", f"{opname(op)} changed the counters: d(accesses)={da} d(hits)={dh} d(cycles)={dc}"))
                else:
                    if da != 1:
                        checks.append(("accesses", f"{opname(op)}: access counter advanced by {da}"))
                    if dh != int(hit):
                        checks.append(("hits", f"{opname(op)}: hit counter advanced by {dh}, reference cache says {'hit' if hit else 'miss'}"))
                    if bool(st1["last_hit"]) != hit:
                        checks.append(("last-hit", f"{opname(op)}: last_hit={st1['last_hit']}, reference {'hit' if hit else 'miss'}"))
                    if dc != extra:
                        checks.append(("penalty", f"{opname(op)}: cycle counter advanced by {dc}, reference surcharge {extra}"))
        return "ok"

    # ---- observations on the (throw-away) object after a transition --------------------------------------
    def cache_view(self):
        """[(set index, way, tag int, base address, [word values])] of valid blocks + replacement status per set."""
        cr = self.mem.cache_repr()
        blocks = []
        status = []
        for si, st in enumerate(cr.sets):
            status.append(st.replacement_status)
            for wi, b in enumerate(st.blocks):
                if b.valid_bit == "1":
                    try:
                        base = int(b.address_value_list[0][0], 16)
                        vals = [int(v) & M for _a, v in b.address_value_list]
                        tag = int(b.tag, 16)
                    except (ValueError, TypeError, IndexError):
                        # a representation that is not a hexadecimal tag / address cannot equal the reference's
                        base, vals, tag = -1, [], ("unparseable", str(b.tag))
                    blocks.append((si, wi, tag, base, vals, b.dirty_bit))
        return blocks, status

    def backing_words(self):
        """What the backing Memory holds, read word by word with its own read function (not through a table function:
        the tables are among the things being checked)."""
        lower = getattr(self.mem, "memory", None)
        out = {}
        if lower is not None and hasattr(lower, "read_word"):
            for a in self.cfg.block_words:
                v = int(lower.read_word(a))
                if v:
                    out[a] = v
            return out
        for a, reps in self.mem.wordwise_repr().items():
            out[a] = int(reps[1])
        return out

    def check_tables(self, checks, when=""):
        """The data-memory table of the simulation and the word table of the cached system show the backing store."""
        backing = self.backing_words()
        for name, tab in (("get_data_memory_entries()", lambda: {a: int(r[1]) for (a, _h), r in self.sim.get_data_memory_entries()}),
                          ("wordwise_repr() of the cached memory system", lambda: {a: int(r[1]) for a, r in self.mem.wordwise_repr().items()})):
            try:
                shown = tab()
            except Exception as e:  # noqa
                checks.append(("memory-table", f"{name}{when} raised {type(e).__name__}: {e}"))
                return
            for a in sorted(set(shown) | set(backing)):
                if a not in self.cfg.block_words:
                    checks.append(("memory-table", f"{name}{when} lists {a:#x}, which is in no block that was ever touched"))
                    return
                if shown.get(a, 0) != backing.get(a, 0):
                    checks.append(("memory-table", f"{name}{when} shows {shown.get(a, 0):#x} at {a:#x}, the backing memory holds {backing.get(a, 0):#x}"))
                    return

    def logical_word(self, a):
        v = 0
        for i in range(4):
            v |= self.flat.get((a + i) & M, 0) << (8 * i)
        return v

    def check_policy(self, checks):
        if not self.ref_valid:
            return
        blocks, status = self.cache_view()
        got = [[None] * self.cfg.ways for _ in range(self.ref.nsets)]
        for si, wi, tag, base, vals, _d in blocks:
            got[si][wi] = tag
        if got != self.ref.tags:
            checks.append(("victim", f"tags per way {got}, reference {self.ref.tags} (a fill displaced a different block than the policy's victim)"))
            return
        for si in range(self.ref.nsets):
            exp = self.ref.policy_state(si)
            if list(status[si]) != list(exp):
                checks.append(("policy-state", f"set {si}: replacement_status {list(status[si])}, reference {list(exp)}"))
                return

    def check_resident(self, checks):
        if not self.ref_valid:
            return
        blocks, _s = self.cache_view()
        got = {(si, tag) for si, _w, tag, _b, _v, _d in blocks}
        if got != self.ref.resident():
            checks.append(("resident-set", f"resident (set, tag) pairs {sorted(got)}, reference {sorted(self.ref.resident())}"))

    def check_coherence(self, checks):
        cfg = self.cfg
        blocks, _s = self.cache_view()
        backing = self.backing_words()
        resident_words = {}
        for si, wi, tag, base, vals, _d in blocks:
            for i, v in enumerate(vals):
                resident_words[(base + 4 * i) & M] = v
        for a in cfg.words:
            lw = self.logical_word(a)
            bw = backing.get(a, 0)
            if a in resident_words and resident_words[a] != lw:
                checks.append(("resident-block-stale", f"resident block word at {a:#x} holds {resident_words[a]:#x}, logical contents {lw:#x}"))
                return
            if cfg.kind == "wt":
                if bw != lw:
                    checks.append(("wt-memory-stale", f"write-through: backing memory at {a:#x} holds {bw:#x}, logical contents {lw:#x}"))
                    return
            else:
                if bw != lw and a not in resident_words:
                    checks.append(("wb-value-lost", f"write-back: backing memory at {a:#x} holds {bw:#x}, logical contents {lw:#x}, block not resident"))
                    return
        # the table shown to the user is the backing store
        self.check_tables(checks)

    def check_readback(self, checks):
        """Destructive on the cache state — only used on throw-away objects, after the state key was taken."""
        for a in self.cfg.words:
            try:
                v = int(self.mem.read_word(self.cfg.spell(a), False))
            except Exception as e:  # noqa
                checks.append(("readback-error", f"read_word({a:#x}) raised {type(e).__name__}"))
                return
            if v != self.logical_word(a):
                checks.append(("stored-value", f"word at {a:#x} reads {v:#x}, flat memory holds {self.logical_word(a):#x}"))
                return

    def key(self):
        """Digest of the real object's state (pickle of the normalised throw-away object) + reference state.
        Normalisation: counters / metrics dropped, flat dict cells sorted by address and zero cells dropped.
        Aliasing or insertion-order differences can only make the key finer (sound; costs time)."""
        mem = self.mem
        saved = []
        for obj in (mem, getattr(mem, "memory", None)):
            if obj is None:
                continue
            for name, val in list(vars(obj).items()):
                if name in SKIP:
                    saved.append((obj, name, val))
                    setattr(obj, name, None)
                elif isinstance(val, dict):
                    saved.append((obj, name, val))
                    setattr(obj, name, {k: v for k, v in sorted(val.items()) if v != 0})
        blob = pickle.dumps(mem, protocol=5)
        for obj, name, val in saved:  # the object stays usable: the oracle's own observer calls come AFTER the key is taken
            setattr(obj, name, val)
        # the counters themselves are not part of the key (their deltas are checked on every transition), but whether any
        # counted access / any hit has happened yet is: code may (wrongly) branch on "never accessed"
        return digest((blob, tuple(sorted((a, v) for a, v in self.flat.items() if v)),
                       self.ref.key() if self.ref_valid else None, self.ref.accesses > 0, self.ref.hits > 0))


def _dropzero(c):
    """Merge a backing-store cell holding 0 with an absent cell (reads cannot tell them apart)."""
    if isinstance(c, tuple):
        if c and c[0] == "dict":
            return ("dict",) + tuple((k, _dropzero(v)) for k, v in c[1:] if v != 0)
        return tuple(_dropzero(x) for x in c)
    return c


def opname(op):
    kind, width, a, vi = op[:4]
    if kind == "reset":
        return "reset()"
    if kind == "table":
        return "get_data_memory_entries()"
    if kind == "stats":
        return "get_cache_stats()"
    if kind == "view":
        return "get_data_cache_entries()"
    if kind == "has":
        return f"cache.contains({op[2]:#x})"
    alias = op[4] if len(op) > 4 else 0
    w = {1: "byte", 2: "halfword", 4: "word"}[width]
    at = f"{a:#x}" + ("" if not alias else (" - 2^32" if alias < 0 else " + 2^32"))
    if kind == "w":
        return f"write_{w}({at}, v{vi})"
    return f"read_{w}({at}{'' if kind == 'r' else ', uncounted'})"


def hist_text(cfg, hist):
    return "; ".join(opname(cfg.ops[i]) for i in hist)


def run_history(cfg, hist, want, last_checks=True):
    """Replay a history on a fresh world; oracle checks on the last operation only. Returns (world, status, checks)."""
    w = World(cfg)
    if w.broken:
        w.state_key = digest(("broken", w.broken))
        return w, "error", [("unexpected-error", f"initial state: {w.broken}")]
    status = "ok"
    for i in hist[:-1]:
        status = w.apply(cfg.ops[i])
    checks = []
    if hist:
        status = w.apply(cfg.ops[hist[-1]], checks)
    # the state key is taken before the oracle looks at tables / cache views: an observer that leaves something behind
    # must not make every state look "already observed" (observers are operations of their own where that matters)
    w.state_key = w.key()
    if "policy" in want:
        w.check_policy(checks)
    if "accounting" in want:
        w.check_resident(checks)
    if "coherence" in want:
        w.check_coherence(checks)
    return w, status, checks


FIELDS = {
    "transparency": {"read-value", "crossing-accepted", "unexpected-error", "stored-value", "readback-error"},
    "accounting": {"accesses", "hits", "last-hit", "penalty", "uncounted-counted", "resident-set", "unexpected-error"},
    "policy": {"victim", "policy-state"},
    "coherence": {"resident-block-stale", "wt-memory-stale", "wb-value-lost", "memory-table", "crossing-accepted"},
}


def expand(shard):
    (cfgargs, want, prop), hists = shard
    cfg = Cfg(*cfgargs)
    allowed = set().union(*(FIELDS[w] for w in want))
    terminal_on_reject = "accounting" in want or "policy" in want
    p = Partial()
    out = []
    for h in hists:
        for oi in range(len(cfg.ops)):
            hist = h + (oi,)
            w, status, checks = run_history(cfg, hist, want)
            p.transitions += 1
            p.evaluations += 1
            p.traces += 1
            terminal = False
            if status in ("rejected", "accepted-crossing"):
                p.counters["rejected" if status == "rejected" else "crossing-accepted"] += 1
                terminal = terminal_on_reject
            key = w.state_key
            if "transparency" in want:
                w.check_readback(checks)
            for e in w.ref.events:
                p.counters["cache-" + e] += 1
            if w.ref.events & {"eviction"} or status == "rejected":
                p.nontrivial += 1
            for f, d in checks:
                if f in allowed:
                    p.violation(dict(oracle="cache-bfs", field=f, kind=cfg.kind), dict(kind="cache-history", cfg=list(cfgargs), hist=list(hist), want=list(want)),
                                f"{cfg.name()}: [{hist_text(cfg, hist)}]: {d}", size=(len(hist), hist))
            out.append((hist, key, terminal))
    p.notes["out"] = out
    return p


def explore(ctx, cfg: Cfg, want, maxdepth, state_cap=300000, deadline=None):
    t0 = time.time()
    w0 = World(cfg)
    if w0.broken:
        part = Partial()
        part.evaluations += 1
        part.violation(dict(oracle="cache-bfs", field="unexpected-error", kind=cfg.kind), dict(kind="cache-history", cfg=list(cfg.args()), hist=[], want=list(want)),
                       f"{cfg.name()}: initial state: {w0.broken}")
        ctx.space(cfg.name(), part, t0, depth=0, closed=False, stopped_early="initial state cannot be built", **cfg.desc())
        return None
    init_checks = []
    key0 = w0.key()
    if "coherence" in want:
        w0.check_coherence(init_checks)
    res = bfs(expand, (cfg.args(), tuple(want), ctx.prop), [key0], [()], maxdepth, state_cap,
              label=f"[{ctx.prop}] {cfg.name()}", deadline=deadline, verbose=False)
    part = res.part
    for f, d in init_checks:
        part.violation(dict(oracle="cache-bfs", field=f, kind=cfg.kind), dict(kind="cache-history", cfg=list(cfg.args()), hist=[], want=list(want)),
                       f"{cfg.name()}: initial state: {d}")
    part.sample(dict(kind="cache-history", cfg=cfg.desc(), history=[opname(cfg.ops[i]) for i in (0, len(cfg.ops) // 2, len(cfg.ops) - 1)]))
    if res.stopped in ("state-cap", "time-cap"):
        ctx.exhaustive = False
    ctx.space(cfg.name(), part, t0, depth=res.depth, closed=res.closed, stopped_early=res.stopped, **cfg.desc())
    return res


def pair_cover(k):
    """A cyclic sequence over range(k) in which every ordered pair (i, j) occurs consecutively exactly once (de Bruijn B(k, 2))."""
    a = [0] * (2 * k)
    seq = []

    def db(t, p):
        if t > 2:
            if 2 % p == 0:
                seq.extend(a[1:p + 1])
        else:
            a[t] = a[t - p]
            db(t + 1, p)
            for j in range(a[t - p] + 1, k):
                a[t] = j
                db(t + 1, t)
    db(1, 1)
    return seq + seq[:1]


def deep_shard(shard):
    """ONE long path through the state graph of a configuration: the pair-cover sequence of its non-crossing operations
    (every ordered pair of operations occurs back to back), every oracle evaluated after every step on the live object.
    What the level-bounded BFS cannot reach: counters, lists and dicts that have grown for hundreds of operations."""
    cfgargs, want = shard
    cfg = Cfg(*cfgargs)
    allowed = set().union(*(FIELDS[w] for w in want))
    ops = [i for i, op in enumerate(cfg.ops) if op[0] in ("reset", "table", "stats", "view", "has") or (op[2] & 3) + op[1] <= 4]
    seq = [ops[i] for i in pair_cover(len(ops))]
    p = Partial()
    w = World(cfg)
    if w.broken:
        p.violation(dict(oracle="cache-deep-path", field="unexpected-error", kind=cfg.kind), dict(kind="cache-history", cfg=list(cfgargs), hist=[], want=list(want)),
                    f"{cfg.name()}: initial state: {w.broken}")
        return p
    hist = []
    resets = 0
    for oi in seq:
        hist.append(oi)
        checks = []
        w.apply(cfg.ops[oi], checks)
        if cfg.ops[oi][0] == "reset":
            resets += 1
        if "policy" in want:
            w.check_policy(checks)
        if "accounting" in want:
            w.check_resident(checks)
        if "coherence" in want:
            w.check_coherence(checks)
        p.transitions += 1
        p.evaluations += 1
        bad = [(f, d) for f, d in checks if f in allowed]
        if bad:
            for f, d in bad[:1]:
                p.violation(dict(oracle="cache-deep-path", field=f, kind=cfg.kind), dict(kind="cache-deep-path", cfg=list(cfgargs), hist=list(hist), want=list(want)),
                            f"{cfg.name()}: step {len(hist)} of the pair-cover path, after [... {hist_text(cfg, hist[-4:])}]: {d}", size=(len(hist), ()))
            break
    else:
        if "transparency" in want:
            checks = []
            w.check_readback(checks)
            for f, d in checks[:1]:
                p.violation(dict(oracle="cache-deep-path", field=f, kind=cfg.kind), dict(kind="cache-deep-path", cfg=list(cfgargs), hist=list(hist), want=list(want)),
                            f"{cfg.name()}: after the whole pair-cover path ({len(hist)} operations): {d}", size=(len(hist), ()))
    p.traces += 1
    p.nontrivial += 1
    p.counters["deep-path-operations"] += len(hist)
    if w.ref.accesses > 300 and w.ref.hits > 260:
        p.counters["deep-path-beyond-256-hits"] += 1
    for e in w.ref.events:
        p.counters["cache-" + e] += 1
    return p


def replay_deep(case):
    """Re-walk the recorded prefix with the oracles after every step; report what the last step shows."""
    cfg = Cfg(*case["cfg"])
    want = tuple(case["want"])
    allowed = set().union(*(FIELDS[w] for w in want))
    w = World(cfg)
    hist = list(case["hist"])
    checks = []
    for n, oi in enumerate(hist):
        checks = []
        w.apply(cfg.ops[oi], checks)
    if "policy" in want:
        w.check_policy(checks)
    if "accounting" in want:
        w.check_resident(checks)
    if "coherence" in want:
        w.check_coherence(checks)
    if "transparency" in want:
        w.check_readback(checks)
    return [(dict(oracle="cache-deep-path", field=f, kind=cfg.kind), f"{cfg.name()}: step {len(hist)}: {d}") for f, d in checks if f in allowed][:1]


def deep_configs(quick):
    """Word-level alphabets (no crossing accesses) over small and LARGE associativities, both write policies, penalties > 0."""
    out = []
    geoms = [((0, 0, 2), "lru"), ((1, 1, 2), "plru"), ((0, 0, 8), "lru"), ((0, 0, 8), "plru"), ((0, 1, 16), "plru"), ((1, 0, 3), "lru"), ((2, 1, 1), "lru")]
    if not quick:
        geoms += [((0, 0, 16), "lru"), ((1, 0, 8), "plru"), ((0, 2, 4), "lru"), ((3, 0, 2), "plru"), ((0, 0, 32), "plru")]
    for k, (g, policy) in enumerate(geoms):
        for kind in ("wb", "wt"):
            out.append(Cfg(*g, kind, policy, (3, 1, 7)[k % 3], ("word", "control", "wordz")[(k + (kind == "wt")) % 3], (False, True, 2)[k % 3], ("base", "mixed", "top")[k % 3], False))
    return out


def deep_paths(ctx, want):
    from vf.engine.core import pmap
    t0 = time.time()
    cfgs = deep_configs(ctx.quick)
    part = pmap(deep_shard, [(c.args(), tuple(want)) for c in cfgs])
    part.sample(dict(kind="cache-deep-path", cfg=cfgs[0].desc(), note="pair-cover sequence of the operations"))
    ctx.space("deep-paths", part, t0, configurations=[c.name() for c in cfgs],
              note="one long path per configuration: every ordered pair of non-crossing operations back to back (de Bruijn sequence), all oracles after every step")
    ctx.require("deep-path-beyond-256-hits")


def replay(case):
    if case.get("kind") == "cache-deep-path":
        return replay_deep(case)
    cfg = Cfg(*case["cfg"])
    want = tuple(case["want"])
    allowed = set().union(*(FIELDS[w] for w in want))
    hist = tuple(case["hist"])
    w, status, checks = run_history(cfg, hist, want)
    if "transparency" in want:
        w.check_readback(checks)
    return [(dict(oracle="cache-bfs", field=f, kind=cfg.kind), f"{cfg.name()}: [{hist_text(cfg, hist)}]: {d}") for f, d in checks if f in allowed]
