"""C12 — write-through keeps memory current; write-back never loses a written value (BFS, state invariant)."""
from __future__ import annotations

from vf.checks import cachebfs, cachecfg
from vf.checks.cachebfs import Cfg

ID = "C12"
LEVEL = "model_checking"
WANT = ("coherence",)


def replay(case):
    return cachebfs.replay(case)


def run(ctx):
    seed = ctx.seed
    ctx.rule = ("BFS over access histories (reads/writes of all widths and byte offsets incl. rejected word-boundary-crossing accesses, counted and "
                "uncounted, empty and preloaded memory) on the real write-through / write-back memory system, replayed on fresh objects. State "
                "invariant after every transition, with the flat store as logical contents, the backing store read word by word from the backing Memory object and "
                "resident blocks through cache_repr(): write-through => backing == logical on the whole universe and every resident block == "
                "logical; write-back => backing differs from logical only inside resident blocks and every resident block == logical (an eviction "
                "can never lose a value); the memory table equals the backing store. Plus the closed constant-data control spaces (every reachable "
                "arrangement of resident tags and policy state). Non-trivial = history with an eviction or a rejected access.")
    ctx.assumptions += ["a backing-store cell holding 0 is merged with an absent cell in the state key",
                        "write values are one distinctive constant per width plus a second byte value; the 'wordz' configurations add stores of 0, a second word value and table calls as operations, over a sparsely preloaded backing store"]
    k = 0
    if ctx.quick:
        for g, kind, policy in cachecfg.quick_configs(seed):
            nwords = len(Cfg(*g, kind, policy).words)
            cachebfs.explore(ctx, Cfg(*g, kind, policy, 0, "full", k % 2 == 1, ("base", "neg", "top")[k % 3]), WANT, 3 if nwords <= 4 else 2)
            cachebfs.explore(ctx, Cfg(*g, kind, policy, 0, "word", k % 2 == 0, "mixed" if k % 2 else "base"), WANT, 6 if nwords <= 4 else (5 if nwords <= 6 else 3))
            k += 1
        cachebfs.explore(ctx, Cfg(0, 0, 4, "wb", "plru", 0, "word", True, "base"), WANT, 4)
        cachebfs.explore(ctx, Cfg(0, 0, 4, "wt", "plru", 0, "word", False, "base"), WANT, 4)
        cachebfs.explore(ctx, Cfg(12, 1, 1, ("wb", "wt")[seed % 2], "lru", 0, "word", True, "base"), WANT, 1)
        closure = [((0, 0, 2), "lru"), ((0, 0, 3), "lru"), ((1, 0, 2), "lru"), ((0, 0, 4), "plru"), ((0, 1, 2), "plru")]
    else:
        for g, kind, policy in cachecfg.thorough_configs():
            nwords = len(Cfg(*g, kind, policy).words)
            for pre in (False, True):
                cachebfs.explore(ctx, Cfg(*g, kind, policy, 0, "full", pre, ("base", "neg", "top", "big")[(k + int(pre)) % 4]), WANT,
                                 3 if nwords <= 6 else 2, state_cap=800000)
            cachebfs.explore(ctx, Cfg(*g, kind, policy, 0, "word", k % 2 == 0, "mixed" if k % 2 else "base"), WANT, 7 if nwords <= 4 else (5 if nwords <= 6 else 4), state_cap=800000)
            k += 1
        cachebfs.explore(ctx, Cfg(12, 1, 1, "wb", "lru", 0, "word", False, "base"), WANT, 2)
        closure = [((0, 0, 1), "lru"), ((0, 0, 2), "lru"), ((0, 0, 2), "plru"), ((0, 0, 3), "lru"), ((1, 0, 2), "lru"), ((1, 0, 2), "plru"),
                   ((0, 0, 4), "plru"), ((0, 0, 4), "lru"), ((1, 1, 2), "lru"), ((0, 1, 2), "plru"), ((2, 0, 1), "lru")]
    # stores of the value 0, equal values in two words of a block, table calls as operations — over a sparsely preloaded store
    for kind, g, depth in (("wb", (0, 1, 1), 4), ("wb", (1, 1, 2), 3), ("wt", (0, 1, 2), 3), ("wb", (0, 2, 1), 3)) + ((("wb", (0, 1, 2), 4), ("wt", (1, 1, 1), 4)) if not ctx.quick else ()):
        cachebfs.explore(ctx, Cfg(*g, kind, "lru", 0, "wordz", 2, "base"), WANT, depth + (0 if ctx.quick else 1))
    for g, policy in closure:
        for kind in ("wb", "wt"):
            cachebfs.explore(ctx, Cfg(*g, kind, policy, 0, "control", True, "base", True), WANT, 60)
    ctx.require("cache-eviction", "cache-fill", "rejected")
    cachebfs.deep_paths(ctx, WANT)
