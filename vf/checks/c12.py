"""C12 — write-through keeps memory current; write-back never loses a written value (BFS, state invariant)."""
from __future__ import annotations

import itertools
import time

from vf.adapt import rv
from vf.checks import c03, cachebfs, cachecfg
from vf.checks.cachebfs import Cfg
from vf.engine.core import Partial, pmap
from vf.ref import rv32

ID = "C12"
LEVEL = "model_checking"
WANT = ("coherence",)


class ProgCfg:
    """What World.check_coherence needs to know about a program run: the touched words and the write policy."""

    def __init__(self, kind, bb, words):
        self.kind = kind
        blk = 4 << bb
        self.words = sorted(words)
        self.block_words = sorted({(a & ~(blk - 1)) + 4 * i for a in self.words for i in range(blk // 4)})


TOUCHED = sorted({c03.BASE + o for o in (0, 4, 64, 68, 128, 192)} | {0xFFFFFFFC})


def program_case(prog, ci, mode):
    """The access history a PROGRAM generates (stores of the pipeline's memory stage included): the coherence invariant after
    every single-cycle step and at the end of a five-stage run, with the golden model's memory as the logical contents."""
    ib, bb, ways, kind, policy = c03.PROG_CACHES[ci]
    pd = {4 * i: ins for i, ins in enumerate(prog)}
    r, m = rv.ref_state(c03.PROG_REGS, c03.PROG_WORDS)
    images = {0: dict(m.image())}
    exp = rv32.run_seq(pd, r, m, 40, per_step=lambda n, pc, regs, mem, out, ex: images.__setitem__(n, dict(mem.image())))
    if exp.err is not None:
        return None, exp
    sim = rv.make_sim(mode, prog, c03.PROG_REGS, c03.PROG_WORDS, dcache=rv.cache_opts(ib, bb, ways, kind, policy, 1))
    w = cachebfs.World.__new__(cachebfs.World)
    w.cfg = ProgCfg(kind, bb, TOUCHED)
    w.sim, w.mem = sim, sim.state.memory
    n = 0
    try:
        while not sim.is_done() and n < 400:
            sim.step()
            n += 1
            if mode == rv.SINGLE:
                w.flat = images.get(n, images[max(images)])
                checks = []
                w.check_coherence(checks)
                if checks:
                    return f"after step {n}: {checks[0][0]}: {checks[0][1]}", exp
    except Exception as e:  # noqa
        return f"run failed: {type(e).__name__}: {e}", exp
    w.flat = images[max(images)]
    checks = []
    w.check_coherence(checks)
    if checks:
        return f"after the run ({n} steps): {checks[0][0]}: {checks[0][1]}", exp
    return None, exp


def prog_shard(shard):
    length, first = shard
    A = c03.mem_alphabet()
    p = Partial()
    for tail in itertools.product(range(len(A)), repeat=length - 1):
        idx = (first,) + tail
        prog = [A[i] for i in idx]
        for ci in range(len(c03.PROG_CACHES)):
            for mode in (rv.SINGLE, rv.FIVE):
                d, exp = program_case(prog, ci, mode)
                p.evaluations += 1
                if exp.err is not None:
                    p.counters["skipped-fault"] += 1
                    continue
                if exp.stores:
                    p.nontrivial += 1
                    p.counters["program-with-stores-under-a-cache"] += 1
                if d:
                    p.violation(dict(oracle="program-coherence", kind=c03.PROG_CACHES[ci][3], mode=mode), dict(kind="cached-program", prog=[list(i) for i in prog], ci=ci, mode=mode),
                                f"[{rv.prog_text(prog)}] {'/'.join(map(str, c03.PROG_CACHES[ci]))} {mode}: {d}", size=(length, idx, ci))
    if first == 0:
        p.sample(dict(kind="cached-program", prog=[list(A[(2 * i) % len(A)]) for i in range(length)], ci=0, mode=rv.FIVE))
    return p


def decl_case(ti, ci, mode):
    """Programs that come from the ASSEMBLER, with a data segment of every declaration kind: the coherence invariant right after
    load_program and after every step; logical contents = the memory of the same program on a simulation without a data cache."""
    from architecture_simulator.simulation.riscv_simulation import RiscvSimulation
    text = c03.decl_texts()[ti]
    ib, bb, ways, kind, policy = c03.DECL_CACHES[ci]
    sim = RiscvSimulation(mode=mode, data_cache=rv.cache_opts(ib, bb, ways, kind, policy, 1))
    plain = RiscvSimulation(mode=mode)
    sim.load_program(text)
    plain.load_program(text)
    words = list(range(rv.BASE, rv.BASE + 96, 4))
    w = cachebfs.World.__new__(cachebfs.World)
    w.cfg = ProgCfg(kind, bb, words)
    w.sim, w.mem = sim, sim.state.memory
    n = 0
    while True:
        w.flat = {}
        for a in w.cfg.block_words:
            v = int(plain.state.memory.read_word(a))
            for i in range(4):
                w.flat[a + i] = (v >> (8 * i)) & 0xFF
        checks = []
        w.check_coherence(checks)
        if checks:
            return f"{'right after load_program' if n == 0 else 'after step ' + str(n)}: {checks[0][0]}: {checks[0][1]}"
        if sim.is_done() or n >= 120:
            return None
        try:
            sim.step()
            plain.step()
        except Exception as e:  # noqa
            return f"step {n + 1} raised {type(e).__name__}: {e}"
        n += 1


def decl_shard(ti):
    p = Partial()
    for ci in range(len(c03.DECL_CACHES)):
        for mode in (rv.SINGLE, rv.FIVE):
            p.evaluations += 1
            p.nontrivial += 1
            p.counters["declared-data-under-a-cache"] += 1
            d = decl_case(ti, ci, mode)
            if d:
                p.violation(dict(oracle="program-coherence", kind=c03.DECL_CACHES[ci][3], mode=mode, source="assembler"), dict(kind="declared-data", ti=ti, ci=ci, mode=mode),
                            f"{c03.decl_texts()[ti][:70]!r}... [{'/'.join(map(str, c03.DECL_CACHES[ci]))}] {mode}: {d}", size=(ti, ci))
    return p


def replay(case):
    if case.get("kind") == "declared-data":
        d = decl_case(case["ti"], case["ci"], case["mode"])
        return [(dict(oracle="program-coherence", kind=c03.DECL_CACHES[case["ci"]][3], mode=case["mode"], source="assembler"), d)] if d else []
    if case.get("kind") == "cached-program":
        d, _exp = program_case([tuple(i) for i in case["prog"]], case["ci"], case["mode"])
        return [(dict(oracle="program-coherence", kind=c03.PROG_CACHES[case["ci"]][3], mode=case["mode"]), d)] if d else []
    return cachebfs.replay(case)


def run(ctx):
    seed = ctx.seed
    ctx.rule = ("BFS over access histories (reads/writes of all widths and byte offsets incl. rejected word-boundary-crossing accesses, counted and "
                "uncounted, empty and preloaded memory) on the real write-through / write-back memory system, replayed on fresh objects. State "
                "invariant after every transition, with the flat store as logical contents, the backing store read word by word from the backing Memory object and "
                "resident blocks through cache_repr(): write-through => backing == logical on the whole universe and every resident block == "
                "logical; write-back => backing differs from logical only inside resident blocks and every resident block == logical (an eviction "
                "can never lose a value); the memory table equals the backing store. Plus the closed constant-data control spaces (every reachable "
                "arrangement of resident tags and policy state). Non-trivial = history with an eviction or a rejected access.")
    ctx.assumptions += ["a backing-store cell holding 0 is merged with an absent cell in the state key",
                        "write values are one distinctive constant per width plus a second byte value; the 'wordz' configurations add stores of 0, a second word value and table calls as operations, over a sparsely preloaded backing store"]
    k = 0
    if ctx.quick:
        for g, kind, policy in cachecfg.quick_configs(seed):
            nwords = len(Cfg(*g, kind, policy).words)
            cachebfs.explore(ctx, Cfg(*g, kind, policy, 0, "full", k % 2 == 1, ("base", "neg", "top")[k % 3]), WANT, 3 if nwords <= 4 else 2)
            cachebfs.explore(ctx, Cfg(*g, kind, policy, 0, "word", k % 2 == 0, "mixed" if k % 2 else "base"), WANT, 6 if nwords <= 4 else (5 if nwords <= 6 else 3))
            k += 1
        cachebfs.explore(ctx, Cfg(0, 0, 4, "wb", "plru", 0, "word", True, "base"), WANT, 4)
        cachebfs.explore(ctx, Cfg(0, 0, 4, "wt", "plru", 0, "word", False, "base"), WANT, 4)
        cachebfs.explore(ctx, Cfg(12, 1, 1, ("wb", "wt")[seed % 2], "lru", 0, "word", True, "base"), WANT, 1)
        closure = [((0, 0, 2), "lru"), ((0, 0, 3), "lru"), ((1, 0, 2), "lru"), ((0, 0, 4), "plru"), ((0, 1, 2), "plru")]
    else:
        for g, kind, policy in cachecfg.thorough_configs():
            nwords = len(Cfg(*g, kind, policy).words)
            for pre in (False, True):
                cachebfs.explore(ctx, Cfg(*g, kind, policy, 0, "full", pre, ("base", "neg", "top", "big")[(k + int(pre)) % 4]), WANT,
                                 3 if nwords <= 6 else 2, state_cap=800000)
            cachebfs.explore(ctx, Cfg(*g, kind, policy, 0, "word", k % 2 == 0, "mixed" if k % 2 else "base"), WANT, 7 if nwords <= 4 else (5 if nwords <= 6 else 4), state_cap=800000)
            k += 1
        cachebfs.explore(ctx, Cfg(12, 1, 1, "wb", "lru", 0, "word", False, "base"), WANT, 2)
        closure = [((0, 0, 1), "lru"), ((0, 0, 2), "lru"), ((0, 0, 2), "plru"), ((0, 0, 3), "lru"), ((1, 0, 2), "lru"), ((1, 0, 2), "plru"),
                   ((0, 0, 4), "plru"), ((0, 0, 4), "lru"), ((1, 1, 2), "lru"), ((0, 1, 2), "plru"), ((2, 0, 1), "lru")]
    # stores of the value 0, equal values in two words of a block, table calls as operations — over a sparsely preloaded store
    for kind, g, depth in (("wb", (0, 1, 1), 4), ("wb", (1, 1, 2), 3), ("wt", (0, 1, 2), 3), ("wb", (0, 2, 1), 3)) + ((("wb", (0, 1, 2), 4), ("wt", (1, 1, 1), 4)) if not ctx.quick else ()):
        cachebfs.explore(ctx, Cfg(*g, kind, "lru", 0, "wordz", 2, "base"), WANT, depth + (0 if ctx.quick else 1))
    for g, policy in closure:
        for kind in ("wb", "wt"):
            cachebfs.explore(ctx, Cfg(*g, kind, policy, 0, "control", True, "base", True), WANT, 60)
    ctx.require("cache-eviction", "cache-fill", "rejected")
    cachebfs.deep_paths(ctx, WANT)
    # the histories programs generate, in both pipeline modes (the five-stage memory stage has its own store path)
    for L in range(1, (3 if ctx.quick else 4) + 1):
        t0 = time.time()
        part = pmap(prog_shard, [(L, f) for f in range(len(c03.mem_alphabet()))])
        ctx.space(f"cached-programs-len{L}", part, t0, length=L, cache_configs=len(c03.PROG_CACHES), modes=2,
                  note="coherence invariant after every single-cycle step and at the end of the five-stage run; logical contents = golden model")
    ctx.require("program-with-stores-under-a-cache")
    t0 = time.time()
    part = pmap(decl_shard, list(range(len(c03.decl_texts()))))
    ctx.space("declared-data-under-caches", part, t0, texts=len(c03.decl_texts()), cache_configs=len(c03.DECL_CACHES), modes=2,
              note="the invariant right after load_program and after every step; logical contents = the same program without a data cache")
    ctx.require("declared-data-under-a-cache")
