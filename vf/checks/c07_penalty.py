"""C07 penalty clause: each step advances the cycle counter by one plus the miss penalties incurred in that step."""
from __future__ import annotations

import itertools
import time

from vf.adapt import rv, spy
from vf.checks import c03
from vf.engine.core import Partial, pmap
from vf.ref.cache import RefCache

ICACHES = [(0, 0, 1, "lru"), (1, 0, 1, "lru"), (0, 1, 2, "plru"), (1, 1, 2, "lru"), (0, 2, 1, "lru"), (0, 0, 2, "plru")]
DCACHES = c03.PROG_CACHES
PENS = (0, 1, 3, 7)


def alphabet():
    A = list(c03.mem_alphabet())
    A += [("beq", 0, 5, 5, 8), ("bne", 0, 5, 5, 8), ("jal", 28, 0, 0, 8), ("add", 6, 5, 5, 0), ("beq", 0, 0, 0, -4)]
    return A


def penalty_case(prog, ic, dc, pi, pd, maxcycles=160):
    ib, bb, ways, policy = ICACHES[ic]
    dib, dbb, dways, kind, dpolicy = DCACHES[dc]
    sim = rv.make_sim(rv.FIVE, prog, c03.PROG_REGS, c03.PROG_WORDS, icache=rv.cache_opts(ib, bb, ways, "wb", policy, pi),
                      dcache=rv.cache_opts(dib, dbb, dways, kind, dpolicy, pd))
    flog = spy.spy_fetch(sim)
    dlog = spy.spy_data(sim)
    iref = RefCache(ib, bb, ways, "wb", policy, pi)
    dref = RefCache(dib, dbb, dways, kind, dpolicy, pd)
    pm = sim.state.performance_metrics
    # the same program without caches, advanced in lock-step: miss penalties are added to the cycle counter only — which
    # instruction retires in which STEP (the documented schedule) must not depend on caches or penalties
    plain = rv.make_sim(rv.FIVE, prog, c03.PROG_REGS, c03.PROG_WORDS)
    n = 0
    total_extra = 0
    while not sim.is_done() and n < maxcycles:
        c0, f0, d0 = pm.cycles, len(flog), len(dlog)
        plain_fault = False
        try:
            plain.step()
        except rv.InstructionExecutionException:
            plain_fault = True
        try:
            sim.step()
        except rv.InstructionExecutionException:
            break
        n += 1
        if not plain_fault:
            r1, r0 = rv.retire_addr(sim), rv.retire_addr(plain)
            if r1 != r0 or sim.is_done() != plain.is_done():
                return [("schedule-with-caches", f"step {n}: retires {r1} (done={sim.is_done()}) with the caches and penalties {pi}/{pd}, {r0} (done={plain.is_done()}) without caches")], iref, dref, total_extra
        extra = 0
        for a, _o in flog[f0:]:
            extra += iref.access(a, False, True)[1]
        for k, w, a, counted in dlog[d0:]:
            extra += dref.access(a, k == "w", counted)[1]
        total_extra += extra
        if pm.cycles - c0 != 1 + extra:
            return [("penalty-per-step", f"step {n}: cycle counter advanced by {pm.cycles - c0}, expected 1 + miss penalties {extra}")], iref, dref, total_extra
    return [], iref, dref, total_extra


def shard_fn(shard):
    length, first, pairing = shard
    A = alphabet()
    p = Partial()
    for tail in itertools.product(range(len(A)), repeat=length - 1):
        idx = (first,) + tail
        prog = [A[i] for i in idx]
        if pairing == "full":
            combos = [(ic, dc) for ic in range(6) for dc in range(6)]
        else:
            combos = [(k, (k + sum(idx)) % 6) for k in range(6)]
        for ic, dc in combos:
            pi = PENS[(ic + dc + idx[0]) % 4]
            pd = PENS[(ic + 2 * dc + 1 + idx[-1]) % 4]
            bad, iref, dref, extra = penalty_case(prog, ic, dc, pi, pd)
            p.evaluations += 1
            p.traces += 1
            if extra and (iref.hits or dref.hits):
                p.nontrivial += 1
            if "miss" in dref.events and pd:
                p.counters["d-penalty"] += 1
            if "miss" in iref.events and pi:
                p.counters["i-penalty"] += 1
            for f, d in bad:
                p.violation(dict(oracle="documented-schedule", field=f), dict(kind="penalty", prog=[list(i) for i in prog], ic=ic, dc=dc, pi=pi, pd=pd),
                            f"[{rv.prog_text(prog)}] icache#{ic} pen={pi} dcache#{dc} pen={pd}: {d}", size=(length, idx, ic, dc))
    if first == 0:
        p.sample(dict(kind="penalty", prog=[list(A[(3 * i) % len(A)]) for i in range(length)], ic=0, dc=1, pi=3, pd=7))
    return p


def loaded_shard(ti):
    """Programs that come from the ASSEMBLER (data segment with every declaration kind + one nop): the cycle counter is 0 before
    the first step and the run takes the documented n + 4 = 5 cycles, whatever data cache and miss penalty are configured —
    loading a program is not a step and incurs no penalty."""
    from architecture_simulator.simulation.riscv_simulation import RiscvSimulation
    from vf.checks import c09
    text = c09.PRELOAD_TEXTS[ti]
    p = Partial()
    for dc, (dib, dbb, dways, kind, dpolicy) in enumerate(DCACHES):
        for pen in (1, 3, 7):
            for loads in (1, 2):
                sim = RiscvSimulation(mode=rv.FIVE, data_cache=rv.cache_opts(dib, dbb, dways, kind, dpolicy, pen))
                for _ in range(loads):
                    sim.load_program(text)
                pm = sim.state.performance_metrics
                p.evaluations += 1
                p.nontrivial += 1
                p.counters["assembled-program-under-a-penalty"] += 1
                bad = None
                if pm.cycles != 0:
                    bad = f"cycle counter is {pm.cycles} before the first step"
                else:
                    n = 0
                    while not sim.is_done() and n < 40:
                        sim.step()
                        n += 1
                    if pm.cycles != 5 or n != 5:
                        bad = f"one independent instruction took {pm.cycles} cycles in {n} steps, documented n + 4 = 5"
                if bad:
                    p.violation(dict(oracle="documented-schedule", field="assembled-program"), dict(kind="penalty-loaded", ti=ti, dc=dc, pen=pen, loads=loads),
                                f"{text!r} dcache#{dc} {kind} pen={pen}, loaded {loads}x: {bad}", size=(ti, dc, pen, loads))
    return p


def replay(case):
    if case.get("kind") == "penalty-loaded":
        part = loaded_shard(case["ti"])
        return [(lst[0][1], lst[0][3]) for _k, (n, lst) in part.viol.items()]
    prog = [tuple(i) for i in case["prog"]]
    bad, _i, _d, _e = penalty_case(prog, case["ic"], case["dc"], case["pi"], case["pd"])
    return [(dict(oracle="documented-schedule", field=f), f"[{rv.prog_text(prog)}]: {d}") for f, d in bad]


def run_part(ctx):
    n = len(alphabet())
    for L, pairing in ((1, "full"), (2, "full"), (3, "paired")) + (() if ctx.quick else ((3, "full"),)):
        t0 = time.time()
        part = pmap(shard_fn, [(L, f, pairing) for f in range(n)])
        part.transitions = 0
        ctx.space(f"penalty-clause-len{L}-{pairing}", part, t0, length=L, icaches=6, dcaches=6, penalties=list(PENS), pairing=pairing)
    from vf.checks import c09
    t0 = time.time()
    part = pmap(loaded_shard, list(range(len(c09.PRELOAD_TEXTS))))
    ctx.space("penalty-clause-assembled-programs", part, t0, texts=len(c09.PRELOAD_TEXTS), dcaches=6, penalties=[1, 3, 7])
    ctx.require("d-penalty", "i-penalty", "assembled-program-under-a-penalty")
