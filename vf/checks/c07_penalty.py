"""C07 penalty clause: each step advances the cycle counter by one plus the miss penalties incurred in it."""


def run_part(ctx):
    pass


def replay(case):
    return []
