"""Setup-time self test: the simulator is importable from the tree under test and the harness basics work."""
from __future__ import annotations


def main():
    from vf.adapt import rv
    from vf.ref import rv32

    prog = [("addi", 1, 0, 0, 5), ("add", 2, 1, 1, 0)]
    for mode in (rv.SINGLE, rv.FIVE):
        sim = rv.make_sim(mode, prog)
        res = rv.run(sim, 50)
        assert res.done and res.regs[2] == 10, (mode, res.regs[:3])
    r, m = rv.ref_state()
    exp = rv32.run_seq({0: prog[0], 4: prog[1]}, r, m, 10)
    assert exp.regs[2] == 10
    print("selftest ok")
    return 0
