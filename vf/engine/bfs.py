"""Level-synchronous explicit-state BFS over histories (DESIGN §1, engine BFS).

A state is the history that reaches it. `expand(shard)` — a module-level function — receives
(args, [history, ...]), replays each history on a fresh real object, applies every enabled operation,
checks the oracle on every transition and returns a Partial whose notes['out'] lists
(history + (op,), state digest, terminal) for every transition. The master deduplicates digests and
builds the next frontier (sorted, so the search is deterministic and simplest-first).
"""
from __future__ import annotations

import time

from . import core
from .core import InternalError, Partial, chunks


class BfsResult:
    def __init__(self):
        self.part = Partial()
        self.states = 0
        self.depth = 0
        self.closed = False
        self.stopped = None
        self.frontier = []


def bfs(expand, args, init_digests, init_frontier, maxdepth, state_cap=400000, label="", stop_on_violation=True,
        deadline=None, verbose=True):
    res = BfsResult()
    seen = set(init_digests)
    frontier = list(init_frontier)
    total = res.part
    depth = 0
    while frontier and depth < maxdepth:
        depth += 1
        parts = chunks(frontier, max(core.JOBS, min(512, len(frontier) // 8 + 1)))
        results = []
        if core.JOBS > 1 and len(parts) > 1:
            for st, part in core.pool().imap_unordered(core._run_shard, [(expand, (args, c)) for c in parts], chunksize=1):
                if st == "err":
                    core.close_pool()
                    raise InternalError(part)
                results.append(part)
        else:
            for c in parts:
                st, part = core._run_shard((expand, (args, c)))
                if st == "err":
                    raise InternalError(part)
                results.append(part)
        allout = []
        for part in results:
            allout.extend(part.notes.pop("out"))
            total.merge(part)
        nxt = []
        for hist, dg, terminal in sorted(allout):
            if dg not in seen:
                seen.add(dg)
                if not terminal:
                    nxt.append(hist)
        frontier = nxt
        if verbose:
            print(f"  {label}: depth {depth} states {len(seen)} frontier {len(frontier)} transitions {total.transitions}", flush=True)
        if stop_on_violation and total.viol:
            res.stopped = "violation"
            break
        if len(seen) > state_cap:
            res.stopped = "state-cap"
            break
        if deadline is not None and time.time() > deadline:
            res.stopped = "time-cap"
            break
    res.closed = not frontier and res.stopped is None
    res.states = len(seen)
    res.depth = depth
    res.frontier = frontier
    total.states = len(seen)
    return res
