"""Scenarios executed in a FRESH interpreter: what a process did before (another ISA's assembler, objects of another
configuration) must not change what a simulation does afterwards.

A BFS or enumeration that lives in one process cannot decide this: class-level and module-level state is shared by
all the histories it replays, so the "initial state" of every history but the first is already polluted. Here each
scenario (a prelude of foreign activity followed by one main action) runs in its own `python -m vf.engine.fresh`
child, and the parent compares the main action's result with the result of the same action without the prelude —
two pristine processes, a differential oracle with no hand-written expectation.

Prelude steps (errors of a prelude step are swallowed: it only has to have happened):
    ["toy_load", text]            ToySimulation().load_program(text)
    ["rv_load", text]             RiscvSimulation().load_program(text)
    ["toy_new", size]             ToySimulation(unified_memory_size=size) (+ one write at the top of its memory)
    ["rv_new", mode, cached]      RiscvSimulation(mode=..., with small caches if cached) running a three-line program
    ["toy_run", text]             a default ToySimulation loads and runs text
Main actions:
    ["rv_image", text]            -> {"error": ...} | {"listing": [[addr, fields...]], "data": [[addr, value]...]}
    ["toy_image", text]           -> {"error": ...} | {"cells": [[addr, value]...], "max_pc": n, "range": [lo, hi]}
    ["toy_run", text, maxsteps]   -> final (accu, pc, ir, instructions, cycles, branches, cells) or {"error": ...}
    ["rv_run", text, mode, steps] -> registers, memory words, output, counters or {"error": ...}
    ["call", module, function, args] -> whatever that function returns (JSON-able): a check's own probe
"""
from __future__ import annotations

import json
import os
import subprocess
import sys


def _prelude(step):
    from architecture_simulator.simulation.riscv_simulation import RiscvSimulation
    from architecture_simulator.simulation.toy_simulation import ToySimulation
    from architecture_simulator.uarch.memory.cache import CacheOptions
    import fixedint

    kind = step[0]
    if kind not in ("toy_load", "rv_load", "toy_new", "rv_new", "toy_run"):
        raise ValueError(kind)
    try:
        if kind == "toy_load":
            ToySimulation().load_program(step[1])
        elif kind == "rv_load":
            RiscvSimulation().load_program(step[1])
        elif kind == "toy_new":
            s = ToySimulation(unified_memory_size=step[1])
            s.state.memory.write_halfword(step[1] - 1, fixedint.UInt16(7))
            KEEP.append(s)
        elif kind == "rv_new":
            kw = {}
            if step[2]:
                kw = dict(data_cache=CacheOptions(True, 1, 1, 2, "wb", "plru", 2), instruction_cache=CacheOptions(True, 0, 1, 2, "wb", "lru", 1))
            s = RiscvSimulation(mode=step[1], **kw)
            s.load_program("lui x3, 4\nsw x3, 0(x3)\nlw x4, 0(x3)\n")
            s.run()
            KEEP.append(s)
        elif kind == "toy_run":
            s = ToySimulation()
            s.load_program(step[1])
            n = 0
            while not s.is_done() and n < 200:
                s.step()
                n += 1
            KEEP.append(s)
    except Exception:  # noqa - a prelude step only has to have happened
        pass


KEEP: list = []  # prelude objects stay alive next to the simulation under test


def _main(act):
    from architecture_simulator.simulation.riscv_simulation import RiscvSimulation
    from architecture_simulator.simulation.toy_simulation import ToySimulation

    kind = act[0]
    if kind == "call":
        # ["call", module, function, [args]]: a check's own probe function, run in this pristine interpreter
        import importlib

        return getattr(importlib.import_module(act[1]), act[2])(*act[3])
    if kind not in ("rv_image", "toy_image", "toy_run", "rv_run"):
        raise ValueError(kind)
    try:
        if kind == "rv_image":
            from vf.adapt import asm

            a = asm.assemble(act[1])
            data = [[a_, int(r[1])] for (a_, _h), r in a.sim.get_data_memory_entries()]
            return {"listing": [[x] + [str(v) for v in asm.fields_full(i)] for x, i in zip(a.addrs, a.ins)], "data": data}
        if kind == "toy_image":
            s = ToySimulation()
            s.load_program(act[1])
            rng = s.state.memory.get_address_range()
            cells = sorted([a_, int(r[1])] for (a_, _h), r, _i, _c in s.get_memory_table_entries())
            return {"cells": cells, "max_pc": s.state.max_pc, "range": [rng.start, rng.stop]}
        if kind == "toy_run":
            from vf.adapt import toy

            s = ToySimulation()
            s.load_program(act[1])
            n = 0
            while not s.is_done() and n < act[2]:
                s.step()
                n += 1
            return {"final": json.loads(json.dumps(toy.snapshot(s))), "steps": n, "done": s.is_done()}
        if kind == "rv_run":
            s = RiscvSimulation(mode=act[2])
            s.load_program(act[1])
            n = 0
            while not s.is_done() and n < act[3]:
                s.step()
                n += 1
            pm = s.state.performance_metrics
            return {"regs": [int(x) for x in s.state.register_file.registers], "data": [[a_, int(r[1])] for (a_, _h), r in s.get_data_memory_entries()],
                    "out": s.state.output, "exit": s.state.exit_code, "counters": [pm.instruction_count, pm.cycles, pm.branch_count, pm.procedure_count], "steps": n}
    except Exception as e:  # noqa
        return {"error": type(e).__name__, "text": str(e)[:200], "line": getattr(e, "line_number", None)}


def child(argv):
    from vf.engine.core import bind_repo

    bind_repo()
    scenario = json.loads(sys.stdin.read())
    for step in scenario["prelude"]:
        _prelude(step)
    print("RESULT " + json.dumps(_main(scenario["main"]), sort_keys=True))
    return 0


def run_scenario(prelude, main, timeout=120):
    """Runs one scenario in a fresh interpreter; returns the main action's result (a dict)."""
    from vf.engine.core import InternalError

    r = subprocess.run([sys.executable, "-X", "int_max_str_digits=4300", "-m", "vf.engine.fresh"], input=json.dumps(dict(prelude=prelude, main=main)),
                       capture_output=True, text=True, timeout=timeout, env=dict(os.environ))
    for line in r.stdout.splitlines():
        if line.startswith("RESULT "):
            return json.loads(line[7:])
    raise InternalError(f"fresh-interpreter scenario gave no result (rc={r.returncode}): {r.stderr[-400:]}")


def differential(prelude, main):
    """(result without the prelude, result with it)."""
    return run_scenario([], main), run_scenario(prelude, main)


if __name__ == "__main__":
    sys.exit(child(sys.argv))
