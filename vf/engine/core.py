"""Shared run-time of all checks: configuration, parallel shard execution, partial results.

A check is a module with
    ID, LEVEL, run(ctx) -> None            (explores; reports through ctx)
    replay(case) -> list[Violation-like tuples]   (re-executes exactly one case)
Exploration is organised in *shards*: picklable descriptors that a forked worker turns into a
`Partial` (counts, anti-vacuity counters, the smallest violations per signature, a few samples).
"""
from __future__ import annotations

import collections
import contextlib
import hashlib
import json
import multiprocessing as mp
import os
import signal
import sys
import time
import traceback

VERIF_DIR = os.path.dirname(os.path.dirname(os.path.dirname(os.path.abspath(__file__))))
REPO = os.environ.get("VF_REPO", "/repo")
JOBS = int(os.environ.get("VF_JOBS", os.cpu_count() or 4))


def bind_repo():
    """Import the simulator from the working tree under test (never from an installed copy)."""
    if sys.path[0] != REPO:
        sys.path.insert(0, REPO)
    import architecture_simulator  # noqa

    got = os.path.dirname(os.path.dirname(os.path.abspath(architecture_simulator.__file__)))
    if os.path.realpath(got) != os.path.realpath(REPO):
        raise InternalError(f"simulator imported from {got}, expected {REPO}")


class InternalError(Exception):
    """The harness itself is broken (vacuous driver, irreproducible result ...): exit 2, never a VIOLATION."""


class CaseTimeout(Exception):
    pass


def _alarm(signum, frame):
    raise CaseTimeout()


@contextlib.contextmanager
def watchdog(seconds: float):
    """Per-case (or per-batch) watchdog. Raises CaseTimeout inside the guarded block."""
    old = signal.signal(signal.SIGALRM, _alarm)
    signal.setitimer(signal.ITIMER_REAL, seconds)
    try:
        yield
    finally:
        signal.setitimer(signal.ITIMER_REAL, 0)
        signal.signal(signal.SIGALRM, old)


def jdump(x) -> str:
    return json.dumps(x, sort_keys=True, default=repr)


def digest(x) -> bytes:
    return hashlib.blake2b(repr(x).encode(), digest_size=16).digest()


def vsort(t):
    """Order of violations: smallest first. Size tuples of different spaces have different shapes, so compare the
    leading number and then a textual form (never tuples of mixed types)."""
    size = t[0]
    lead = size[0] if size and isinstance(size[0], (int, float)) else 0
    return (lead, jdump(size), jdump(t[2]))


MAX_KEEP_PER_SIG = 2
MAX_SAMPLES = 4


class Partial:
    """Mergeable result of exploring one shard."""

    def __init__(self):
        self.evaluations = 0
        self.nontrivial = 0
        self.states = 0
        self.transitions = 0
        self.traces = 0
        self.counters = collections.Counter()
        self.viol = {}  # sigkey -> [count, [(size, sig, case, msg) ...smallest]]
        self.samples = []
        self.notes = {}

    def sample(self, case):
        if len(self.samples) < MAX_SAMPLES:
            self.samples.append(case)

    def violation(self, sig: dict, case: dict, msg: str, size=()):
        key = jdump(sig)
        ent = self.viol.setdefault(key, [0, []])
        ent[0] += 1
        ent[1].append((tuple(size), sig, case, msg))
        ent[1].sort(key=vsort)
        del ent[1][MAX_KEEP_PER_SIG:]

    def merge(self, o: "Partial"):
        self.evaluations += o.evaluations
        self.nontrivial += o.nontrivial
        self.states += o.states
        self.transitions += o.transitions
        self.traces += o.traces
        self.counters.update(o.counters)
        for key, (n, lst) in o.viol.items():
            ent = self.viol.setdefault(key, [0, []])
            ent[0] += n
            ent[1].extend(lst)
            ent[1].sort(key=vsort)
            del ent[1][MAX_KEEP_PER_SIG:]
        for s in o.samples:
            self.sample(s)
        for k, v in o.notes.items():
            self.notes.setdefault(k, v)
        return self


def _run_shard(args):
    func, shard = args
    t0 = time.time()
    try:
        p = func(shard)
        if not isinstance(p, Partial):
            raise InternalError(f"shard function returned {type(p)}")
        p.notes.setdefault("_t", 0)
        p.notes["_t"] = time.time() - t0
        return ("ok", p)
    except BaseException as e:  # noqa
        return ("err", f"shard {shard!r}: {type(e).__name__}: {e}\n{traceback.format_exc()}")


_POOL = None


def pool():
    global _POOL
    if _POOL is None:
        ctx = mp.get_context("fork")
        _POOL = ctx.Pool(JOBS)
    return _POOL


def close_pool():
    global _POOL
    if _POOL is not None:
        _POOL.terminate()
        _POOL.join()
        _POOL = None


def pmap(func, shards, into: Partial | None = None, deadline: float | None = None) -> Partial:
    """Run func over all shards on the worker pool and merge the partials.

    func must be a module-level function. Shards are dispatched in order (simplest first).
    If `deadline` (absolute time) passes, remaining shards are skipped and the partial is
    marked as capped (notes['capped'] = number of skipped shards) — never silently.
    """
    total = into if into is not None else Partial()
    shards = list(shards)
    if not shards:
        return total
    if JOBS <= 1 or len(shards) == 1:
        for i, s in enumerate(shards):
            if deadline is not None and time.time() > deadline:
                total.notes["capped"] = total.notes.get("capped", 0) + len(shards) - i
                break
            st, p = _run_shard((func, s))
            if st == "err":
                raise InternalError(p)
            total.merge(p)
        return total
    it = pool().imap_unordered(_run_shard, [(func, s) for s in shards], chunksize=1)
    done = 0
    for st, p in it:
        if st == "err":
            close_pool()
            raise InternalError(p)
        total.merge(p)
        done += 1
        if deadline is not None and time.time() > deadline and done < len(shards):
            total.notes["capped"] = total.notes.get("capped", 0) + len(shards) - done
            close_pool()
            break
    return total


def chunks(seq, n):
    seq = list(seq)
    k = max(1, (len(seq) + n - 1) // n)
    return [seq[i : i + k] for i in range(0, len(seq), k)]


def rot(seq, k):
    """Rotate a sequence by k (seed-driven slice rotation: never sampling)."""
    seq = list(seq)
    if not seq:
        return seq
    k %= len(seq)
    return seq[k:] + seq[:k]
