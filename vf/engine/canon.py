"""Generic canonical form of a Python object graph (DESIGN §1.3): needs no field names."""
from __future__ import annotations

import enum
import hashlib

import fixedint

SKIP = {"_start", "_execution_time_s"}  # wall-clock fields of the performance metrics


def canon(o, path=None, skip=SKIP):
    if path is None:
        path = []
    if isinstance(o, (str, int, float, bool, type(None), bytes)):
        return o
    if isinstance(o, (fixedint.FixedInt, fixedint.MutableFixedInt)):
        return int(o)
    if isinstance(o, enum.Enum):
        return o.name
    if isinstance(o, range):
        return ("range", o.start, o.stop, o.step)
    if isinstance(o, type):
        return o.__name__
    for i, p in enumerate(path):
        if p is o:
            return ("cycle", len(path) - i)
    path.append(o)
    try:
        if isinstance(o, (list, tuple)):
            return tuple(canon(x, path, skip) for x in o)
        if isinstance(o, (set, frozenset)):
            return ("set",) + tuple(sorted((canon(x, path, skip) for x in o), key=repr))
        if isinstance(o, dict):
            return ("dict",) + tuple(sorted(((repr(k), canon(v, path, skip)) for k, v in o.items())))
        if hasattr(o, "__dict__"):
            return (type(o).__name__,) + tuple((k, canon(v, path, skip)) for k, v in sorted(vars(o).items()) if k not in skip)
        if hasattr(o, "__slots__"):
            return (type(o).__name__,) + tuple((k, canon(getattr(o, k, None), path, skip)) for k in o.__slots__)
        return repr(o)
    finally:
        path.pop()


def chash(o, skip=SKIP) -> bytes:
    return hashlib.blake2b(repr(canon(o, None, skip)).encode(), digest_size=16).digest()
