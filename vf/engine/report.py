"""Evidence files, known-findings matching, replay files and the exit protocol."""
from __future__ import annotations

import hashlib
import json
import os
import time

from .core import VERIF_DIR, InternalError, Partial, jdump

FINDINGS_FILE = os.path.join(VERIF_DIR, "known_findings.json")
EVIDENCE_DIR = os.environ.get("VF_EVIDENCE_DIR") or os.path.join(VERIF_DIR, "evidence")
REPLAY_DIR = os.environ.get("VF_REPLAY_DIR") or os.path.join(VERIF_DIR, "replays")


def load_findings(prop: str):
    if not os.path.exists(FINDINGS_FILE):
        return []
    with open(FINDINGS_FILE) as f:
        data = json.load(f)
    return [e for e in data.get("findings", []) if e.get("property") == prop]


def sig_matches(match: dict, sig: dict) -> bool:
    return all(sig.get(k) == v for k, v in match.items())


class Context:
    """One run of one check."""

    def __init__(self, prop: str, level: str, tier: str, seed: int):
        self.prop = prop
        self.level = level
        self.tier = tier
        self.seed = seed
        self.quick = tier == "quick"
        self.t0 = time.time()
        self.total = Partial()
        self.rule = ""
        self.assumptions: list[str] = []
        self.spaces: list[dict] = []  # one entry per enumerated space
        self.required_counters: list[str] = []
        self.exhaustive = True
        self.extra: dict = {}

    # -- bookkeeping used by checks ---------------------------------------------------------
    def space(self, name: str, part: Partial, t0: float, **info):
        """Record one fully enumerated space (or a capped one) and merge it into the total."""
        capped = part.notes.get("capped", 0)
        ent = dict(
            name=name,
            evaluations=part.evaluations,
            nontrivial=part.nontrivial,
            states=part.states,
            transitions=part.transitions,
            violations=sum(n for n, _ in part.viol.values()),
            wall_s=round(time.time() - t0, 2),
            **info,
        )
        if capped:
            ent["capped_shards_skipped"] = capped
            self.exhaustive = False
        self.spaces.append(ent)
        self.total.merge(part)
        print(
            f"[{self.prop}] {name}: evals={part.evaluations} nontrivial={part.nontrivial}"
            + (f" states={part.states} trans={part.transitions}" if part.states else "")
            + f" viol={ent['violations']} {ent['wall_s']}s"
            + (f" CAPPED({capped} shards skipped)" if capped else ""),
            flush=True,
        )

    def require(self, *names):
        self.required_counters.extend(names)

    def deadline(self, frac=1.0):
        budget = float(os.environ.get("VF_BUDGET_S", "0") or 0)
        if budget <= 0:
            return None
        return self.t0 + budget * frac

    # -- end of run ---------------------------------------------------------------------------
    def finish(self, replay_fn=None) -> int:
        tot = self.total
        # anti-vacuity: a required event class that never occurred means the driver is broken
        missing = [c for c in self.required_counters if tot.counters.get(c, 0) == 0]
        findings = load_findings(self.prop)
        known = [e for e in findings if e.get("status") == "known"]
        unmatched = []
        fired = {}
        n_viol = 0
        for key, (n, lst) in sorted(tot.viol.items()):
            n_viol += n
            sig = lst[0][1]
            hit = None
            for e in known:
                if sig_matches(e["match"], sig):
                    hit = e
                    break
            if hit is not None:
                f = fired.setdefault(hit["id"], [hit, 0])
                f[1] += n
            else:
                unmatched.append((lst[0][0], key, n, lst))
        for fid, (e, n) in sorted(fired.items()):
            print(f"KNOWN-FINDING: property={self.prop} {e['what']} [{fid}; {n} explored cases]")
        rc = 0
        replay_paths = []
        discarded = []
        if unmatched:
            from .core import vsort
            unmatched.sort(key=lambda t: (vsort((t[0], None, None))[:2], t[1]))
            for idx, (size, key, n, lst) in enumerate(unmatched):
                size, sig, case, msg = lst[0]
                path = write_replay(self.prop, sig, case, msg)
                # reproduce before reporting: replay the written artefact in a FRESH interpreter (process-global state of
                # this process or of the workers must not decide whether a case counts)
                if replay_fn is not None and len(replay_paths) < 6:
                    rc_replay, out = run_replay_subprocess(self.prop, path)
                    if rc_replay != 1:
                        # only violations that a fresh process reproduces from the artefact alone are reported; one that
                        # depended on what else this run's processes had executed is set aside (and said so)
                        discarded.append((key, case, rc_replay, out))
                        print(f"  NOT-REPRODUCED in a fresh process (exit {rc_replay}), set aside: {msg[:200]}\n    signature={key}")
                        try:
                            os.remove(path)
                        except OSError:
                            pass
                        continue
                replay_paths.append(path)
                print(f"  violation x{n}: {msg}\n    signature={key}\n    case={jdump(case)[:600]}")
            if not replay_paths:
                key, case, rc_replay, out = discarded[0]
                raise InternalError(
                    f"no violation of this run reproduced in a fresh process: sig={key} case={jdump(case)[:400]} exit={rc_replay} output={out[-300:]}"
                )
            # the smallest unmatched case first
            print(f"VIOLATION property={self.prop} replay={replay_paths[0]}")
            for p in replay_paths[1:8]:
                print(f"VIOLATION property={self.prop} replay={p}")
            rc = 1
        self.write_evidence(n_viol, fired, unmatched)
        if missing and rc == 0:
            raise InternalError(f"vacuous exploration: required event classes never occurred: {missing}")
        wall = time.time() - self.t0
        print(
            f"[{self.prop}] {self.tier} seed={self.seed}: evaluations={tot.evaluations} "
            f"distinct_nontrivial={tot.nontrivial} states={tot.states} transitions={tot.transitions} "
            f"violations={n_viol} (known={sum(n for _e, n in fired.values())}) exhaustive={self.exhaustive} "
            f"wall={wall:.1f}s -> {'FAIL' if rc else 'OK'}",
            flush=True,
        )
        return rc

    def write_evidence(self, n_viol, fired, unmatched):
        tot = self.total
        cov = dict(
            evaluations=tot.evaluations,
            distinct_nontrivial=tot.nontrivial,
            rule=self.rule,
            samples=tot.samples[:6] or ["(none)"],
            exhaustive=self.exhaustive,
            spaces=self.spaces,
            event_counters=dict(sorted(tot.counters.items())),
        )
        if self.level == "model_checking":
            cov["states"] = tot.states
            cov["transitions"] = tot.transitions
            cov["traces_validated_against_impl"] = tot.traces
        cov.update(self.extra)
        ev = dict(
            property_id=self.prop,
            tier=self.tier,
            seed=self.seed,
            level=self.level,
            coverage=cov,
            assumptions=self.assumptions,
            wall_s=round(time.time() - self.t0, 2),
            violations=n_viol,
            known_findings_fired=sorted(fired.keys()),
            unmatched_signatures=[json.loads(k) for _s, k, _n, _l in unmatched][:20],
            repo=os.environ.get("VF_REPO", "/repo"),
        )
        os.makedirs(EVIDENCE_DIR, exist_ok=True)
        path = os.path.join(EVIDENCE_DIR, f"{self.prop}.json")
        tmp = path + ".tmp"
        with open(tmp, "w") as f:
            json.dump(ev, f, indent=1, sort_keys=True, default=repr)
            f.write("\n")
        os.replace(tmp, path)


def run_replay_subprocess(prop: str, path: str):
    import subprocess

    check = os.path.join(VERIF_DIR, "check")
    try:
        r = subprocess.run([check, prop, "--replay", path], capture_output=True, text=True, timeout=900)
        return r.returncode, r.stdout + r.stderr
    except subprocess.TimeoutExpired:
        return -9, "replay timed out"


def write_replay(prop: str, sig: dict, case: dict, msg: str) -> str:
    os.makedirs(REPLAY_DIR, exist_ok=True)
    h = hashlib.blake2b(jdump([sig, case]).encode(), digest_size=6).hexdigest()
    path = os.path.join(REPLAY_DIR, f"{prop}-{h}.json")
    doc = dict(property=prop, signature=sig, case=case, message=msg,
               replay_cmd=f"./check {prop} --replay {path}")
    try:
        from . import unittest_gen

        ut = unittest_gen.generate(prop, case)
        if ut:
            doc["unit_test"] = ut
    except Exception as e:  # noqa
        doc["unit_test_error"] = repr(e)
    with open(path, "w") as f:
        json.dump(doc, f, indent=1, sort_keys=True, default=repr)
        f.write("\n")
    return path
