"""Generates a stand-alone unit test (repo imports only) for the common case kinds of a replay file."""
from __future__ import annotations

HEAD = '''import fixedint
from architecture_simulator.simulation.riscv_simulation import RiscvSimulation
from architecture_simulator.isa.riscv import rv32i_instructions as I


def _mk(ins, addr):
    op, rd, rs1, rs2, imm = ins
    C = I.instruction_map[op]
    if issubclass(C, I.RTypeInstruction): return C(rd=rd, rs1=rs1, rs2=rs2)
    if issubclass(C, (I.STypeInstruction, I.BTypeInstruction)): return C(rs1=rs1, rs2=rs2, imm=imm)
    if issubclass(C, I.UTypeInstruction): return C(rd=rd, imm=imm)
    if issubclass(C, I.JTypeInstruction): return C(rd=rd, imm=imm, abs_addr=addr + imm)
    if op == "ecall": return C()
    return C(rd=rd, rs1=rs1, imm=imm)


def _sim(mode, prog, regs, words, at=0, hazard=True):
    s = RiscvSimulation(mode=mode, detect_data_hazards=hazard)
    for i, ins in enumerate(prog):
        s.state.instruction_memory.write_instruction(at + 4 * i, _mk(tuple(ins), at + 4 * i))
    s.state.program_counter = at
    for k, v in regs.items(): s.state.register_file.registers[int(k)] = fixedint.UInt32(v)
    for a, v in words.items(): s.state.memory.write_word(int(a), fixedint.UInt32(v))
    return s
'''


CACHE_HEAD = '''import fixedint
from architecture_simulator.simulation.riscv_simulation import RiscvSimulation
from architecture_simulator.uarch.memory.cache import CacheOptions

TY = {1: fixedint.UInt8, 2: fixedint.UInt16, 4: fixedint.UInt32}


def test_replay():
    # %(prop)s: access history on a real data-cache memory system, checked against a flat byte dictionary
    sim = RiscvSimulation(data_cache=CacheOptions(True, %(ib)d, %(bb)d, %(ways)d, %(kind)r, %(policy)r, %(penalty)d))
    m = sim.state.memory
    flat = {}
    for a, v in %(preload)r:
        m.write_byte(a, fixedint.UInt8(v), directly_write_to_lower_memory=True)
        flat[a & 0xFFFFFFFF] = v
    rd = {1: m.read_byte, 2: m.read_halfword, 4: m.read_word}
    wr = {1: m.write_byte, 2: m.write_halfword, 4: m.write_word}
    for kind, width, addr, value in %(ops)r:
        if kind == "reset":
            m.reset(); flat = {}; continue
        if kind == "table":
            print(sim.get_data_memory_entries()); continue  # compare with what the backing memory holds (see the message)
        if kind == "stats":
            print(m.get_cache_stats()); continue
        if kind == "view":
            sim.get_data_cache_entries(); continue
        if kind == "has":
            from architecture_simulator.uarch.memory.decoded_address import DecodedAddress
            m.cache.contains(DecodedAddress(%(ib)d, %(bb)d, addr)); continue
        crossing = (addr & 3) + width > 4
        try:
            if kind == "w":
                wr[width](addr, TY[width](value))
            else:
                got = int(rd[width](addr, kind == "r"))
        except Exception:
            assert crossing, (kind, width, hex(addr), "accepted access raised")
            continue
        assert not crossing, (kind, width, hex(addr), "access crossing a word boundary was not rejected")
        if kind == "w":
            for i in range(width):
                flat[(addr + i) & 0xFFFFFFFF] = (value >> (8 * i)) & 0xFF
        else:
            exp = sum(flat.get((addr + i) & 0xFFFFFFFF, 0) << (8 * i) for i in range(width))
            assert got == exp, (kind, width, hex(addr), hex(got), hex(exp))
    for a in sorted({x & ~3 for x in flat}):
        exp = sum(flat.get(a + i, 0) << (8 * i) for i in range(4))
        assert int(m.read_word(a, False)) == exp, ("stored value", hex(a))
    print(m.get_cache_stats(), sim.state.performance_metrics.cycles)  # accounting oracles: compare with the replay file's message
'''


def _cache_history(prop, case):
    from vf.checks.cachebfs import Cfg, WVALS, preload_byte

    cfg = Cfg(*case["cfg"])
    ops = []
    flat = {}
    pre = [(cfg.spell(a), preload_byte(a)) for a in cfg.bytes if not (cfg.pre == 2 and not (a >> 2) & 1)] if cfg.pre else []
    for a, v in pre:
        flat[a & 0xFFFFFFFF] = v
    for i in case["hist"]:
        op = cfg.ops[i]
        kind, width, a, vi = op[:4]
        alias = op[4] if len(op) > 4 else 0
        if kind == "reset":
            ops.append(("reset", 0, 0, 0))
            flat = {}
            continue
        if kind in ("table", "stats", "view"):
            ops.append((kind, 0, 0, 0))
            continue
        if kind == "has":
            ops.append((kind, 0, cfg.spell(a), 0))
            continue
        val = 0
        if kind == "w":
            if cfg.const:
                val = sum(flat.get((a + k) & 0xFFFFFFFF, 0) << (8 * k) for k in range(width))
            else:
                val = WVALS[width][vi]
            if (a & 3) + width <= 4:
                for k in range(width):
                    flat[(a + k) & 0xFFFFFFFF] = (val >> (8 * k)) & 0xFF
        ops.append((kind, width, cfg.spell(a, alias), val))
    return CACHE_HEAD % dict(prop=prop, ib=cfg.ib, bb=cfg.bb, ways=cfg.ways, kind=cfg.kind, policy=cfg.policy, penalty=cfg.penalty, preload=pre, ops=ops)


def generate(prop, case):
    kind = case.get("kind")
    if kind == "cache-history":
        return _cache_history(prop, case)
    if kind == "insn":
        return HEAD + f'''

def test_replay():
    # {prop}: single instruction, single-cycle step; compare with the values in the replay file's message
    s = _sim("single_stage_pipeline", [{case["ins"]!r}], {case["regs"]!r}, {case["words"]!r}, at={case["at"]})
    s.step()
    print([hex(int(x)) for x in s.state.register_file.registers], s.state.program_counter, repr(s.state.output), s.state.exit_code)
'''
    if kind in ("prog", "pipe"):
        hz = case.get("hazard", True)
        return HEAD + f'''

def test_replay():
    # {prop}: the two modes must agree on registers, output and exit code for this program
    res = []
    for mode in ("single_stage_pipeline", "five_stage_pipeline"):
        s = _sim(mode, {case["prog"]!r}, {case["regs"]!r}, {case["words"]!r}, hazard={hz!r})
        n = 0
        try:
            while not s.is_done() and n < {int(case.get("steps", 40)) * 8}:
                s.step(); n += 1
        except Exception as e:
            res.append(("error", getattr(e, "address", None)))
        res.append(([int(x) for x in s.state.register_file.registers], s.state.output, s.state.exit_code))
    assert res[0] == res[1], res
'''
    return None
