"""Generates a stand-alone unit test (repo imports only) for the common case kinds of a replay file."""
from __future__ import annotations

HEAD = '''import fixedint
from architecture_simulator.simulation.riscv_simulation import RiscvSimulation
from architecture_simulator.isa.riscv import rv32i_instructions as I


def _mk(ins, addr):
    op, rd, rs1, rs2, imm = ins
    C = I.instruction_map[op]
    if issubclass(C, I.RTypeInstruction): return C(rd=rd, rs1=rs1, rs2=rs2)
    if issubclass(C, (I.STypeInstruction, I.BTypeInstruction)): return C(rs1=rs1, rs2=rs2, imm=imm)
    if issubclass(C, I.UTypeInstruction): return C(rd=rd, imm=imm)
    if issubclass(C, I.JTypeInstruction): return C(rd=rd, imm=imm, abs_addr=addr + imm)
    if op == "ecall": return C()
    return C(rd=rd, rs1=rs1, imm=imm)


def _sim(mode, prog, regs, words, at=0, hazard=True):
    s = RiscvSimulation(mode=mode, detect_data_hazards=hazard)
    for i, ins in enumerate(prog):
        s.state.instruction_memory.write_instruction(at + 4 * i, _mk(tuple(ins), at + 4 * i))
    s.state.program_counter = at
    for k, v in regs.items(): s.state.register_file.registers[int(k)] = fixedint.UInt32(v)
    for a, v in words.items(): s.state.memory.write_word(int(a), fixedint.UInt32(v))
    return s
'''


def generate(prop, case):
    kind = case.get("kind")
    if kind == "insn":
        return HEAD + f'''

def test_replay():
    # {prop}: single instruction, single-cycle step; compare with the values in the replay file's message
    s = _sim("single_stage_pipeline", [{case["ins"]!r}], {case["regs"]!r}, {case["words"]!r}, at={case["at"]})
    s.step()
    print([hex(int(x)) for x in s.state.register_file.registers], s.state.program_counter, repr(s.state.output), s.state.exit_code)
'''
    if kind in ("prog", "pipe"):
        hz = case.get("hazard", True)
        return HEAD + f'''

def test_replay():
    # {prop}: the two modes must agree on registers, output and exit code for this program
    res = []
    for mode in ("single_stage_pipeline", "five_stage_pipeline"):
        s = _sim(mode, {case["prog"]!r}, {case["regs"]!r}, {case["words"]!r}, hazard={hz!r})
        n = 0
        try:
            while not s.is_done() and n < {int(case.get("steps", 40)) * 8}:
                s.step(); n += 1
        except Exception as e:
            res.append(("error", getattr(e, "address", None)))
        res.append(([int(x) for x in s.state.register_file.registers], s.state.output, s.state.exit_code))
    assert res[0] == res[1], res
'''
    return None
