"""Adapter for the RISC-V assembler: assemble a text through RiscvSimulation.load_program and read back the
stored instructions as field tuples (mnemonic, rd, rs1, rs2, imm) at the property's observation points."""
from __future__ import annotations

from architecture_simulator.simulation.riscv_simulation import RiscvSimulation

from vf.engine.core import CaseTimeout, watchdog
from vf.ref import rv32


def fields(ins):
    g = lambda n: getattr(ins, n, None)  # noqa
    return (ins.mnemonic, g("rd"), g("rs1"), g("rs2"), g("imm"))


def fields_full(ins):
    g = lambda n: getattr(ins, n, None)  # noqa
    return (ins.mnemonic, g("rd"), g("rs1"), g("rs2"), g("imm"), g("csr"), g("uimm"))


class Assembled:
    __slots__ = ("sim", "addrs", "ins", "fields", "listing")


def assemble(text, timeout=10, before=None, **simkw):
    """Returns Assembled; lets every exception of load_program through (CaseTimeout on non-termination).
    before: a program loaded into the same (not yet started) simulation first — a load replaces what an earlier load left."""
    sim = RiscvSimulation(**simkw)
    with watchdog(timeout):
        if isinstance(before, (list, tuple)):
            # a history of earlier loads, some of which may be rejected (the rejection itself is not this caller's concern)
            for b in before:
                try:
                    if isinstance(b, tuple):
                        # ("touch", text, addresses): the earlier program is loaded and its data is looked at through the memory
                        # system (uncounted reads, as a display would do) — the simulation still has not started
                        sim.load_program(b[1])
                        for a_ in b[2]:
                            sim.state.memory.read_word(a_, False)
                    else:
                        sim.load_program(b)
                except CaseTimeout:
                    raise
                except Exception:  # noqa
                    pass
        elif before is not None:
            sim.load_program(before)
        sim.load_program(text)
    a = Assembled()
    a.sim = sim
    im = sim.state.instruction_memory
    a.listing = im.get_representation()
    a.addrs = [x for x, _t in a.listing]
    a.ins = [im.read_instruction(x) for x in a.addrs]
    a.fields = [fields(i) for i in a.ins]
    return a


def to_abstract(f):
    """Field tuple of a stored instruction -> abstract instruction of the golden model (None if out of scope)."""
    mn, rd, rs1, rs2, imm = f
    if mn in rv32.ALU:
        return (mn, rd, rs1, rs2, 0)
    if mn in rv32.IALU or mn in rv32.LD or mn == "jalr":
        return (mn, rd, rs1, 0, imm)
    if mn in rv32.ST or mn in rv32.BR:
        return (mn, 0, rs1, rs2, imm)
    if mn in ("lui", "auipc", "jal"):
        return (mn, rd, 0, 0, imm)
    if mn == "ecall":
        return ("ecall", 0, 0, 0, 0)
    return None
