"""The read-only inspection functions named by C13 / C16 / C20, and full canonical snapshots."""
from __future__ import annotations

from vf.adapt import rv
from vf.engine.canon import canon

SKIP = {"_start", "_execution_time_s"}


def metrics_text(sim):
    """Performance-metric text with the two wall-clock lines masked."""
    txt = sim.get_performance_metrics_str()
    return "\n".join(l for l in txt.split("\n") if not l.startswith("execution time") and not l.startswith("instructions per second"))


def riscv_functions(sim):
    """name -> zero-argument callable, in a fixed order."""
    f = {
        "register_entries": sim.get_register_entries,
        "data_memory_entries": sim.get_data_memory_entries,
        "instruction_memory_entries": sim.get_instruction_memory_entries,
        "data_cache_entries": lambda: canon(sim.get_data_cache_entries()),
        "data_cache_stats": sim.get_data_cache_stats,
        "instruction_cache_entries": lambda: canon(sim.get_instruction_cache_entries()),
        "instruction_cache_stats": sim.get_instruction_cache_stats,
        "svg_update_values": (sim.get_riscv_five_stage_svg_update_values if sim.mode == rv.FIVE else sim.get_riscv_single_stage_svg_update_values),
        "metrics_text": lambda: metrics_text(sim),
        "output": sim.get_output,
        "exit_code": sim.get_exit_code,
        "is_done": sim.is_done,
        "has_instructions": sim.has_instructions,
    }
    return f


def toy_functions(sim):
    return {
        "register_representations": sim.get_register_representations,
        "memory_table_entries": sim.get_memory_table_entries,
        "svg_update_values": sim.get_toy_svg_update_values,
        "metrics_text": lambda: metrics_text(sim),
        "is_done": sim.is_done,
        "has_instructions": sim.has_instructions,
    }


def functions(sim):
    return riscv_functions(sim) if hasattr(sim, "mode") else toy_functions(sim)


def state_canon(sim):
    return canon(sim.__dict__, None, SKIP)


def full_snapshot(sim):
    """Complete state + every inspection result (the inspection calls are made on the live object: C16 decides
    that they are pure; C13 uses this only at points where a second call sequence is compared with the same calls)."""
    return (state_canon(sim), tuple((n, canon(f())) for n, f in functions(sim).items()))


def observables(sim):
    """What a user can observe: the result of every inspection function plus has_started. Comparisons between two
    simulations use this (never raw internal state: internal caches may legitimately differ); the raw canonical state is
    only used as a (finer) key for deduplication."""
    return (tuple((n, canon(f())) for n, f in functions(sim).items()), bool(getattr(sim, "has_started", False)))
