"""The only place (with toy.py / asm helpers) that touches RISC-V simulator classes.

Builds simulations through the public constructors, converts abstract instructions to instruction
objects, steps, and takes snapshots at the observation points named by the properties.
"""
from __future__ import annotations

import fixedint

from architecture_simulator.isa.riscv import rv32i_instructions as I
from architecture_simulator.isa.riscv.instruction_types import EmptyInstruction
from architecture_simulator.settings.settings import Settings
from architecture_simulator.simulation.riscv_simulation import RiscvSimulation
from architecture_simulator.simulation.runtime_errors import InstructionExecutionException
from architecture_simulator.uarch.memory.cache import CacheOptions

from vf.engine.core import InternalError
from vf.ref import rv32

U32 = fixedint.UInt32
U16 = fixedint.UInt16
U8 = fixedint.UInt8
SINGLE = "single_stage_pipeline"
FIVE = "five_stage_pipeline"
BASE = Settings().get()["memory_address_min_bytes"]
if BASE != rv32.MINADDR:
    raise InternalError(f"first data address is {BASE}, reference models assume {rv32.MINADDR}")

NOCACHE = CacheOptions(False, 0, 0, 1, "wb", "lru", 0)


def cache_opts(index_bits, block_bits, ways, kind="wb", policy="lru", penalty=0):
    return CacheOptions(True, index_bits, block_bits, ways, kind, policy, penalty)


_RTYPE = set(rv32.ALU)
_ITYPE = set(rv32.IALU) | set(rv32.LD) | {"jalr"}
_SB = set(rv32.ST) | set(rv32.BR)


def to_impl(ins, addr=0):
    op, rd, rs1, rs2, imm = ins
    C = I.instruction_map[op]
    if op in _RTYPE:
        return C(rd=rd, rs1=rs1, rs2=rs2)
    if op in _ITYPE:
        return C(rd=rd, rs1=rs1, imm=imm)
    if op in _SB:
        return C(rs1=rs1, rs2=rs2, imm=imm)
    if op in ("lui", "auipc"):
        return C(rd=rd, imm=imm)
    if op == "jal":
        return C(rd=rd, imm=imm, abs_addr=addr + rv32.sx(imm, 21))
    if op == "ecall":
        return C()
    raise ValueError(op)


def ins_text(ins):
    op, rd, rs1, rs2, imm = ins
    if op in _RTYPE:
        return f"{op} x{rd},x{rs1},x{rs2}"
    if op in rv32.LD:
        return f"{op} x{rd},{imm}(x{rs1})"
    if op in _ITYPE:
        return f"{op} x{rd},x{rs1},{imm}"
    if op in rv32.ST:
        return f"{op} x{rs2},{imm}(x{rs1})"
    if op in rv32.BR:
        return f"{op} x{rs1},x{rs2},{imm}"
    if op in ("lui", "auipc"):
        return f"{op} x{rd},{imm}"
    if op == "jal":
        return f"jal x{rd},pc{imm:+d}"
    return op


def prog_text(prog):
    return "; ".join(ins_text(i) for i in prog)


_IMPL_CACHE: dict = {}


def impl_of(ins, addr):
    """Instruction objects are immutable in use; cache them per (ins, addr for jal)."""
    key = (ins, addr if ins[0] == "jal" else 0)
    o = _IMPL_CACHE.get(key)
    if o is None:
        o = _IMPL_CACHE[key] = to_impl(ins, addr)
        if len(_IMPL_CACHE) > 200000:
            _IMPL_CACHE.clear()
    return o


NEIGHBOURS = []  # simulations kept alive next to the one under test


def make_sim(mode, prog, regs=None, mem_words=None, mem_bytes=None, hazard=True, dcache=None, icache=None, pre_reset=False, style="plain"):
    """prog: list of abstract instructions placed at 0,4,8...; regs: {index: value};
    mem_words: {addr: 32-bit value}, mem_bytes: {addr: byte} — preloaded below any cache."""
    kw = {}
    if dcache is not None:
        kw["data_cache"] = dcache
    if icache is not None:
        kw["instruction_cache"] = icache
    if style == "via-state":
        # the state is built on its own and handed to the simulation (as the repository's own tests do), without a mode argument
        from architecture_simulator.uarch.riscv.riscv_architectural_state import RiscvArchitecturalState
        skw = {}
        if dcache is not None:
            skw["data_cache_options"] = dcache
        if icache is not None:
            skw["instruction_cache_options"] = icache
        s = RiscvSimulation(state=RiscvArchitecturalState(pipeline_mode=mode, detect_data_hazards=hazard, **skw))
    else:
        s = RiscvSimulation(mode=mode, detect_data_hazards=hazard, **kw)
    if style == "neighbour":
        # a second five-stage simulation with the OPPOSITE hazard switch is created afterwards and stays alive
        del NEIGHBOURS[:]
        NEIGHBOURS.append(RiscvSimulation(mode=FIVE, detect_data_hazards=not hazard))
    if pre_reset:
        # what every user-visible run has behind it: load_program resets both memory systems (and their caches)
        s.load_program("")
    s.state.instruction_memory.write_instructions([impl_of(ins, 4 * i) for i, ins in enumerate(prog)])
    if regs:
        r = s.state.register_file.registers
        for k, v in regs.items():
            r[k] = U32(v)
    m = s.state.memory
    if mem_words:
        for a, v in mem_words.items():
            m.write_word(a, U32(v), directly_write_to_lower_memory=True)
    if mem_bytes:
        for a, v in mem_bytes.items():
            m.write_byte(a, U8(v), directly_write_to_lower_memory=True)
    return s


def ref_state(regs=None, mem_words=None, mem_bytes=None):
    r = [0] * 32
    if regs:
        for k, v in regs.items():
            if k != 0:
                r[k] = v & rv32.M
    m = rv32.Mem()
    if mem_words:
        for a, v in mem_words.items():
            m.wr(a, 4, v)
    if mem_bytes:
        for a, v in mem_bytes.items():
            m.wr(a, 1, v)
    return r, m


def regs_of(sim):
    return [int(x) for x in sim.state.register_file.registers]


def backing_memory(sim):
    m = sim.state.memory
    return getattr(m, "memory", m)


def mem_image(sim, extra_addrs=()):
    """Non-zero bytes of data memory as seen through state.memory.read_byte (uncounted)."""
    m = sim.state.memory
    addrs = set(extra_addrs)
    bm = backing_memory(sim)
    mf = getattr(bm, "memory_file", None)
    if mf is not None:
        addrs.update(mf.keys())
    # resident cache blocks may hold values the backing store has not seen yet
    cr = m.cache_repr()
    if cr is not None:
        for st in cr.sets:
            for b in st.blocks:
                if b.valid_bit == "1":
                    for a_hex, _v in b.address_value_list:
                        a = int(a_hex, 16)
                        addrs.update((a, a + 1, a + 2, a + 3))
    img = {}
    for a in addrs:
        if a >= BASE:
            v = int(m.read_byte(a, False))
            if v:
                img[a] = v
    return img


class RunResult:
    __slots__ = ("done", "regs", "mem", "out", "exit", "retired", "err", "err_repr", "ic", "bc", "jc", "cycles",
                 "stalls", "flushes", "steps", "pc", "retire_cycles", "exc")


def retire_addr(sim):
    """Address of the instruction that retired in the step just taken (None if none)."""
    pr = sim.state.pipeline.pipeline_registers
    if len(pr) == 5:  # the pipeline that is actually stepped decides, not the simulation's mode argument
        r = pr[4]
        if isinstance(r.instruction, EmptyInstruction):
            return None
        return r.address_of_instruction
    return pr[0].address_of_instruction


def run(sim, maxsteps, extra_addrs=(), per_step=None):
    retired = []
    rc = []
    err = None
    err_repr = None
    exc = None
    n = 0
    five = len(sim.state.pipeline.pipeline_registers) == 5
    pm = sim.state.performance_metrics
    try:
        while not sim.is_done() and n < maxsteps:
            if five:
                sim.step()
                n += 1
                a = retire_addr(sim)
                if a is not None:
                    retired.append(a)
                    rc.append((a, pm.cycles))
            else:
                a = sim.state.program_counter
                sim.step()
                n += 1
                retired.append(a)
            if per_step is not None:
                per_step(n, sim)
    except InstructionExecutionException as e:
        err = e.address
        err_repr = e.instruction_repr
    except Exception as e:  # noqa - any other exception type escaping step() is reported by the caller
        exc = f"{type(e).__name__}: {e}"
    st = sim.state
    r = RunResult()
    r.done = sim.is_done() if exc is None else None
    r.regs = regs_of(sim)
    r.mem = mem_image(sim, extra_addrs) if exc is None else None
    r.out = st.output
    r.exit = st.exit_code
    r.retired = retired
    r.retire_cycles = rc
    r.err = err
    r.err_repr = err_repr
    r.exc = exc
    r.ic = pm.instruction_count
    r.bc = pm.branch_count
    r.jc = pm.procedure_count
    r.cycles = pm.cycles
    r.stalls = pm.stalls
    r.flushes = pm.flushes
    r.steps = n
    r.pc = st.program_counter
    return r
