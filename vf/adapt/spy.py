"""Per-instance wrappers that log the fetches / data accesses a simulation performs (observation only)."""
from __future__ import annotations


def spy_fetch(sim):
    """Log of (address, returned instruction object) for every read_instruction call."""
    im = sim.state.instruction_memory
    log = []
    orig = im.read_instruction

    def read_instruction(address):
        o = orig(address)
        log.append((address, o))
        return o

    im.read_instruction = read_instruction
    return log


def spy_data(sim):
    """Log of (kind 'r'|'w', width, address, counted) for every data access through state.memory."""
    m = sim.state.memory
    log = []

    def wrap_read(name, width):
        orig = getattr(m, name)

        def f(address, update_statistics=True):
            log.append(("r", width, address, bool(update_statistics)))
            return orig(address, update_statistics)

        setattr(m, name, f)

    def wrap_write(name, width):
        orig = getattr(m, name)

        def f(address, value, directly_write_to_lower_memory=False):
            log.append(("w", width, address, not directly_write_to_lower_memory))
            return orig(address, value, directly_write_to_lower_memory)

        setattr(m, name, f)

    for n, w in (("read_byte", 1), ("read_halfword", 2), ("read_word", 4)):
        wrap_read(n, w)
    for n, w in (("write_byte", 1), ("write_halfword", 2), ("write_word", 4)):
        wrap_write(n, w)
    return log
