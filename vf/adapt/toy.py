"""Adapter for the TOY simulator: build simulations from word lists (bypassing the assembler), snapshots."""
from __future__ import annotations

from fixedint import UInt16

from architecture_simulator.isa.toy.toy_instructions import ToyInstruction
from architecture_simulator.simulation.toy_simulation import ToySimulation
from architecture_simulator.uarch.toy.SvgVisValues import SvgVisValues
from architecture_simulator.util.fixedint_12 import UInt12


def make_toy(words, data=None, accu=0, size=None):
    """State as the assembler leaves it for a program whose instruction words are `words` (may include words that
    cannot be written in assembly) plus `data` cells {address: value}."""
    sim = ToySimulation() if size is None else ToySimulation(unified_memory_size=size)
    st = sim.state
    if data:
        for a, v in data.items():
            st.memory.write_halfword(a, UInt16(v))
    for i, w in enumerate(words):
        st.memory.write_halfword(i, UInt16(w))
    st.max_pc = len(words) - 1
    if words:
        st.loaded_instruction = ToyInstruction.from_integer(words[0])
        st.visualisation_values = SvgVisValues(pc_old=UInt16(0), ram_out=UInt16(int(st.loaded_instruction)))
    if accu:
        st.accu = UInt16(accu)
    return sim


def snapshot(sim):
    """Same shape as ToyRef.snapshot()."""
    st = sim.state
    pm = st.performance_metrics
    li = st.loaded_instruction
    mem = tuple(sorted((a, int(v)) for a, v in _cells(sim) if int(v)))
    return (int(st.accu), int(st.program_counter), None if li is None else int(li), pm.instruction_count, pm.cycles, pm.branch_count, mem)


def _cells(sim):
    m = sim.state.memory
    mf = getattr(m, "memory_file", None)
    if mf is not None:
        return mf.items()
    # fall back to the public table
    return [(a, int(r[1])) for (a, _h), r, _i, _c in sim.get_memory_table_entries()]
