#!/venv/bin/python
"""Regenerates /verif/MANIFEST.json from the table below (only checks whose module exists are claimed)."""
import json
import os

HERE = os.path.dirname(os.path.dirname(os.path.abspath(__file__)))
BASELINE = "cd /repo && /venv/bin/python -m pytest -ra -q -p no:cacheprovider --timeout=900 --continue-on-collection-errors"

T = {
 "C01": ("exploration", "3 (C01)", "bounded-exhaustive enumeration of operands and programs on the real single-cycle simulator against a golden RV32IM model",
         "Every mnemonic in scope executed by a real step() over aliasing patterns x boundary operands x all 4096 12-bit immediates / all shift amounts / alignment classes, and every program up to length 3 (5) over the hazard alphabets, compared with an independent golden model after every step. Exhaustive within the stated alphabets; values outside the boundary sets are not covered.",
         "Golden model vf/ref/rv32.py written from the RISC-V unprivileged spec and the help page's ecall table; chr(v % 128) for character output; pc compared modulo 2^32."),
 "C02": ("exploration", "3 (C02)", "bounded-exhaustive program enumeration, differential: real five-stage pipeline vs. real single-cycle mode",
         "Every program up to length 4 (5) over an 18-symbol hazard alphabet and up to 3 (4) over the 30-symbol one, the C01 operand sweep inside landing pads, and loop/call/ecall templates, each run in both real modes and compared (registers, memory, output, exit, counters, retire order, fault address).",
         "Step horizon 24 (40); when single-cycle mode does not terminate inside it only the retire-order prefix, registers and output are compared."),
 "C03": ("model_checking", "3 (C03)", "explicit-state BFS over access histories of the real cached memory system, flat byte store as reference model; plus program enumeration",
         "All histories up to depth 3 (4) over the full width/offset alphabet and depth 5 (6) over the word alphabet on small geometries, replayed on fresh real objects and deduplicated on a normalised state key; flat-store oracle on every transition incl. rejected accesses and full read-back. Programs up to length 3 (4) under 6 cache configurations in both modes vs. the golden run.",
         "State key = pickle of the normalised real object (finer than necessary is sound); geometries up to 4 sets x 4 words x 4 ways (+ one 4096-set geometry at depth 2 in thorough)."),
 "C07": ("model_checking", "3 (C07)", "reference stage-occupancy machine checked in lock-step against the real pipeline on every enumerated program; control-state BFS to a fixed point",
         "Model = 5-stage occupancy machine of DESIGN appendix A. Every program up to length 4 (5) is run cycle by cycle on model and implementation (retirement per cycle, cycle counter, stalls); the control-state search over a forward-only alphabet closes (18 700 states), so every reachable control state for programs of any length over that alphabet was visited with every edge executed on the implementation; n+4 law; penalty clause with caches.",
         "The model's ecall hold (fixed two extra cycles) is calibrated against the unchanged tree; fixed point assumes data-constant forward-only alphabet."),
 "C08": ("model_checking", "3 (C08)", "reference interlock-free pipeline machine in lock-step with the real pipeline (hazard detection off); control-state BFS to a fixed point; padded programs vs. golden sequential run",
         "Same program spaces as C07 with detect_data_hazards=False against the model's stale-read semantics, closed control-state space (27 386 states), stall counter == ecall drains, and every padded program equals the sequential result.",
         "ecall reads a7/a0 when it executes; data-constant alphabet for the fixed point."),
 "C09": ("model_checking", "3 (C09)", "explicit-state BFS over accepted-access histories of the real data cache against a reference set-associative cache; closure with constant data; program enumeration",
         "Per transition d(accesses), d(hits), last_hit, d(cycles) equal the reference; resident-set look-ahead in every state; constant-data control spaces closed (fixed point) for 14 (24) configurations; counters identical in both pipeline modes for all programs up to length 3 (4) under 6 configurations.",
         "Reference cache vf/ref/cache.py + vf/ref/policy.py; rejected accesses are terminal."),
 "C10": ("model_checking", "3 (C10)", "BFS to a fixed point over the complete reachable state space of the real LRU/PLRU objects and of real one-/two-set caches, against reference policies",
         "Every reachable state of LRU(1..6 / 1..8) and PLRU(1,2,4,8 / 16) with every access from it: victim, get_repr, idempotence; set binding (way-by-way tags + replacement_status after every hit and fill) on closed cache state spaces.",
         "PLRU bit array read in heap order (root first, upper child first)."),
 "C12": ("model_checking", "3 (C12)", "explicit-state BFS over access histories with a state invariant relating backing memory, resident blocks and the logical contents",
         "Invariant evaluated after every transition of the C03 history space (rejected accesses included) and on the closed constant-data control spaces, observing only wordwise_repr(), cache_repr() and get_data_memory_entries().",
         "Same bounds and key as C03."),
 "C04": ("exploration", "3 (C04)", "bounded-exhaustive enumeration of source texts generated from an abstract-program grammar, assembled by the real parser and compared with the instruction list computed from the abstract program; deviation-bounded spelling variants; pseudo groups executed on the golden model",
         "Every sequence of up to 2 items over 14 expansion classes (3 over the five size classes; 3 over all and 4 over the size classes in thorough) x label placements x referenced labels x offsets x segment framings; every mnemonic in every documented operand form; every single spelling deviation (33 register names x positions, case, radix, whitespace, comments); every pseudo-instruction group run on the golden model from arbitrary registers.",
         "'Well-formed' = generated by this grammar. Pseudo groups are compared with the group the assembler emits for the pseudo-instruction on its own (the property fixes effect and position-independence, not the expansion)."),
 "C05": ("exploration", "3 (C05)", "bounded-exhaustive enumeration of data segments and li constants, assembled and executed on the real simulator against a reference layout",
         "Every sequence of up to 2 (3) declarations over 16 shapes in both segment orders with la / load / store by name on every element and one past the end; byte image, registers after running, memory after stores and memory-table rows compared with the reference layout; li for all 4096 low-12-bit patterns x 8 boundary upper parts in 3 (4) spellings, executed.",
         "Upper parts of li constants from a boundary set; length-3 sequences over an 8-shape subset in quick."),
 "C14": ("exploration", "3 (C14)", "exhaustive enumeration of instruction objects per operand field (all 4096 immediates, all registers, all 4096 addresses for pc-relative forms), printed and re-assembled by the real parser",
         "Instruction objects built with the public constructors, printed with repr and re-assembled in 4096-line batches: class and every field compared; all 12-bit immediates for 15 mnemonics, all even 13-bit immediates for 6 branches, all shift amounts, all csr numbers, jal at every instruction address; listing fixed point for the C04 corpus.",
         "U-type and J-type immediates complete only in thorough; R-type register triples complete only in thorough."),
 "C15": ("fault_enumeration", "3 (C15)", "exhaustive single-fault injection over every token position of a base corpus x a fault alphabet, exhaustive token soups, capacity boundaries, and all faulting programs of a bounded program space",
         "Every token of 12 RISC-V and 6 TOY base programs x 49 faults (pairs in thorough), every line of up to 3 (4) tokens over a 14-token vocabulary in three contexts, does-not-fit inputs at the exact boundaries, every faulting or misaligned program up to length 3 over the hazard alphabet in both modes with and without a data cache; outcome classified by exception type, line number validity, faulting address / printed instruction and the front end's get_last_error().",
         "10 s watchdog per load decides termination; fault alphabet and vocabulary are fixed lists."),
 "C06": ("exploration", "3 (C06)", "exhaustive enumeration of all 2^16 instruction words and of all programs up to a length bound on the real TOY simulation against a reference accumulator machine",
         "All 65 536 words x boundary accu/cell values executed by one real step; every program up to length 3 (4) over a 40-word self-modification alphabet stepped to a horizon; 4096-word programs across the pc wrap; accu, pc, instruction register, whole memory, cycles and counts compared after every step.",
         "Simulations are built from word lists as the assembler leaves them (validated against load_program at start-up); horizon 60 steps."),
 "C11": ("exploration", "3 (C11)", "bounded-exhaustive program enumeration x cache geometries on the real simulator with a wrapped read_instruction, reference cache fed the observed fetch stream; enumerated reload histories",
         "Every program up to length 3 (4) over H18 plus sized loops/calls x 13 (26) instruction-cache configurations x both modes: identical results to the real uncached run, every fetch returns the stored instruction object, accesses == fetches, hits / last_hit / cycle surcharge equal a reference cache; every history load X; k steps; load Y; run.",
         "Wrong-path fetches are observed, not predicted."),
 "C13": ("model_checking", "3 (C13)", "explicit-state BFS over load/step/run call histories on real simulations, run to closure, invariants and differential oracle (fresh simulation) on every transition",
         "All interleavings of load(P_i), step(), run() over a 12-program corpus (9 for TOY) on six simulation configurations, deduplicated on the complete canonical snapshot plus every inspection result; the search closes (524 states).",
         "Program corpus is fixed; behaviour after a run-time fault is not explored."),
 "C16": ("exploration", "3 (C16)", "deviation-bounded exhaustive exploration: every inspection function x every step index (bound 1), pairs (bound 2), saturated schedule, against the uninspected run",
         "For each corpus program x mode x cache configuration, every single deviation (one function called once or twice after step i) and the saturated schedule are executed on fresh simulations; the digest of the complete canonical state after every later step and all final inspection results must equal the baseline.",
         "Corpus of 10 (14) RISC-V and 6 TOY programs; bound 2 only in thorough."),
 "C17": ("exploration", "3 (C17)", "exhaustive enumeration of all 12- and 16-bit values (and boundary 32-bit patterns) through the real formatter and tables against a reference formatter",
         "All 4096 / 65 536 values with negative and over-wide aliases; all 4096 populations of 12 byte addresses in three write orders at both ends of the data range through get_data_memory_entries(); every register x boundary values; every TOY accu, pc and memory-cell value through the TOY tables.",
         "32-bit values from boundary / single-bit / run-of-ones patterns only."),
 "C18": ("model_checking", "3 (C18)", "explicit-state BFS over read/write histories on the real flat memories (RISC-V and TOY) against a cell dictionary",
         "All histories to depth 3 (4) over widths {1,2,4,8} x 23 addresses around both ends of the valid range (negative, >= 2^32, straddling) for RISC-V and depth 4 (5) over 10 addresses for TOY, replayed on fresh objects and deduplicated on the canonical object state; typed errors and state-unchanged checks on every transition.",
         "For a store straddling the boundary only 'raises' is demanded."),
 "C19": ("exploration", "3 (C19)", "exhaustive enumeration of all 2^16 words / all constructors x addresses, and of all source texts of a bounded TOY grammar against a layout computed from the abstract program",
         "Encoding round trip for every word and every constructor x 4096 addresses; every text of up to 2 (3) instruction lines x label placements x reference targets x data declarations x segment framings assembled by the real ToySimulation.load_program and compared cell by cell; the three help-page examples run to their documented results.",
         "Grammar bounded to the generator's shapes."),
 "C20": ("model_checking", "3 (C20)", "per-program explicit-state BFS to closure over step / first_cycle_step / second_cycle_step / single_step call sequences on the real ToySimulation against a two-phase reference automaton",
         "For every program up to length 2 (3) over the 40-word alphabet, the empty program and the help-page examples, all call sequences (legal and illegal, in every reached state) are explored until no new canonical snapshot appears; legal calls must track the reference by half instructions, illegal calls must raise and change nothing, boundary states must equal the whole-step run.",
         "Non-terminating programs are cut at an instruction cap (24 / 60) and reported as cut."),
}

# spaces added while the checks were strengthened against independently seeded defects (DESIGN.md section 11.6)
ADD = {
 "C08": " Operand sweep of C01/C02 between independent marker instructions with the interlock off vs. single-cycle mode; long runs.",
 "C07": " Long runs (up to 5 700 cycles) in lock-step with the model; the penalty clause also requires the step-indexed retire schedule under caches and penalties to equal the uncached one.",
 "C01": " Producer -> consumer chains for every register-writing mnemonic; boundary memory words in every seed's slice. With caches: every program over the memory alphabet in single-cycle mode under six data / instruction-cache configurations vs. the golden model. Long runs (hundreds / thousands of steps).",
 "C02": " Producer -> consumer chains, faulting instructions with independent neighbours. With caches: five-stage vs. single-cycle mode under the SAME data / instruction caches, programs over the memory alphabet. Long runs (straight-line code up to 1100 instructions, counted loops up to 300 iterations).",
 "C03": " Alphabets contain reset(), alias spellings of one address (a, a +- 2^32) and, in the 'wordz' configurations, stores of 0 over a sparsely preloaded backing store; the state key keeps zero / non-zero of the counters and is taken before the oracle observes. Declared-data clause: data segments with every declaration kind loaded element by element under 9 cache configurations, cached vs. uncached. Deep paths: per configuration (up to 16 / 32 ways) one pair-cover path over all non-crossing operations, oracle after every step. Programs with an ecall are also run with print-string registers preset; a store / load through a negative effective address.",
 "C04": " Plus: label names that are mnemonics, all sequences of by-name pseudo-instructions, programs that fill the instruction memory exactly (with branches to labels at both ends of their reach), by-name elements on another 4 KiB page than their array, and differentials between FRESH interpreters (the same text assembled after the TOY assembler / other simulations were active vs. in a pristine interpreter). Every declaration kind directly behind a variable that ends off a word boundary; every pair of texts assembled one behind the other (load_program, and the assembler handed the same state twice) vs. a fresh state.",
 "C05": " Rotations: data-cache configurations, data memories whose valid range starts elsewhere, loads over an earlier program and again after a rejected one. li programs start from non-zero patterns in every register.",
 "C06": " Every program is driven by whole steps, single cycles, explicit half cycles and in alternation with a second independent simulation; fresh-interpreter differentials (run after machines of another size / the other ISA were active). Reload clause: load X; k steps; [rejected load;] load Y; run on one simulation vs. a fresh simulation (Y == X included).",
 "C09": " Preload clause (load_program leaves counters and cycles untouched, first counted access is a cold miss); reload clause (load X; k steps; load Y; run: d(cycles) = uncached + penalty x misses in each phase); statistics and cache-table calls as BFS operations; programs with an ecall are also run with print-string registers preset. Deep paths (pair-cover sequences, hundreds of hits and misses, up to 16 / 32 ways).",
 "C10": " Plus every history up to length 4-5 (7) over the operations of TWO policy objects side by side (all pairs of kind and size), each history on freshly executed class definitions; the observers are BFS operations. Configured-policy clause: every pairing of policies for the instruction and the data cache of one simulation (each enabled or merely configured; 3 / 4 / 8 ways), tags and replacement_status vs. the reference of the cache's own configuration.",
 "C11": " Programs filling the instruction memory; reload histories incl. a rejected program; histories in which the statistics are asked for at two points only (all k, j). Runs with cache table and statistics looked at after every step (3+ ways); the largest geometries (one way = the whole instruction memory) with blocks 2 / 4 / 8 KiB apart fetched alternately.",
 "C12": " The backing store is read word by word from the backing Memory object; both tables are compared with it; table calls are BFS operations ('wordz' configurations with stores of 0 and equal values over a sparse preload). Deep paths; program clause: the invariant after every single-cycle step and at the end of five-stage runs of every program over the memory alphabet (logical contents = golden model).",
 "C14": " Views while executing: every mnemonic with wide / x0 operands and boundary immediates executed step by step in both modes; listing, pipeline-view text and error text after every step must assemble to the stored instruction and the listing must re-assemble to itself. The listing of every batch program (thousands of instructions of one mnemonic differing in one operand) is checked line by line.",
 "C16": " The baseline is observed by one separate run per inspection function; probes in the deviation step, one step later and at the end; corpus programs with a script of later loads; inspected vs. uninspected runs in separate fresh interpreters, observed after every step.",
 "C17": " Table histories (writes, reads, resets, table calls) on uncached and cached simulations (table vs. the backing store's own cells); every word in the TOY instruction register. TOY programs executed half-cycle by half-cycle: accu / pc / ir displays vs. the reference two-phase machine.",
 "C18": " Operations include reset(), 'a simulation of the other architecture is created next to this memory', and 'the owning simulation loads a rejected program, then one without data'; the public cell table is compared after every transition and the first observation pins old-or-new cells. Stores also pass plain ints and value objects of a narrower fixed-width type.",
 "C19": " The assembler space is repeated on simulations with other memory sizes; every split of a small memory into instructions + data (exact fit); fresh-interpreter differentials (after a machine of another size / the RISC-V assembler / an earlier program with the same names). Every third generated text is decorated with comments (also ones containing '#'), blank lines, tabs; reload clause (placement right after load X; k steps; load Y).",
 "C13": " Every configuration is explored twice: plainly and with every inspection function called after every operation. Behind a run-time fault that leaves has_started false, loads are still offered and compared with a fresh load.",
 "C15": " Replacement alphabet includes non-ASCII digits, letters that match mnemonics only through unicode case folding, string literals above U+00FF. Four fault kinds at every token are repeated with CRLF and CR line endings.",
}

# clauses added in the seventh round / with defect D9
ADD2 = {'C02': ' Dependency templates through every register x1..x31.', 'C06': ' Assembled texts (operands >= 4096 included) executed against the reference machine built from the assembled words; the default size given explicitly.', 'C07': ' Dependency templates through every register x1..x31 on simulations built three ways (constructor, via a state, with a neighbour simulation of the opposite hazard switch); assembled programs with declared data under every data cache and penalty.', 'C08': ' Dependency templates through every register on simulations built three ways (incl. a neighbour simulation with the interlock ON created afterwards).', 'C09': ' The data-memory table is an operation of the closed control spaces (two of three over a preloaded store).', 'C12': ' Assembled programs with declared data of every kind: the invariant right after load_program and after every step.', 'C13': ' Reloads after a rejected load are also compared between fresh interpreters; a configuration is abandoned after four watchdog timeouts.', 'C14': ' pc-relative forms in states whose instruction memory starts at another address.', 'C16': ' A program with more than 10 000 characters of output and a TOY program executing non-canonical words.', 'C19': ' The default size given explicitly.', 'C20': ' Machines with 2 / 4 / 8 / 16 words whose programs end at or branch to the last word.', 'C04': ' Comments containing form feeds, vertical tabs and unicode line separators (genuine defect D9).', 'C15': ' Control characters at which str.splitlines() ends a line, inside comments and strings (genuine defect D9).'}

NA_REASON = "check not built yet at this commit (work in progress; the technique applies, see DESIGN.md)"


def main():
    props = [json.loads(l) for l in open(os.path.join(HERE, "properties.jsonl"))]
    checks, na = [], []
    for p in props:
        pid = p["id"]
        mod = os.path.join(HERE, "vf", "checks", pid.lower() + ".py")
        if pid in T and os.path.exists(mod):
            level, ref, tech, text, note = T[pid]
            text = text + ADD.get(pid, "") + ADD2.get(pid, "")
            checks.append(dict(property_id=pid, quick_cmd=f"./check {pid} quick", thorough_cmd=f"./check {pid} thorough",
                               evidence_file=f"/verif/evidence/{pid}.json", replay_cmd_template=f"./check {pid} --replay {{path}}",
                               engine="vf", level_claimed=dict(category=level, text=text, design_ref="DESIGN.md section " + ref),
                               level_note=note, technique=tech))
        else:
            na.append(dict(property_id=pid, reason=NA_REASON))
    man = dict(
        version=1,
        setup_cmd="chmod +x /verif/check && /venv/bin/python -c 'import fixedint, pyparsing' && cd /verif && ./check selftest",
        hooks=dict(guard="EKUT_ES_ARCHITECTURE_SIMULATOR_VERIF",
                   enable="no source hooks are needed: checks import the working tree under /repo directly (VF_REPO overrides the path) and drive public constructors; ./check exports the guard for completeness",
                   baseline_off_cmd=BASELINE, source_commits=[], add_only=True),
        engines=[dict(name="vf", path="/verif/vf", serves_properties=[c["property_id"] for c in checks],
                      kind_free_text="hand-written bounded-exhaustive explorers for Python: ENUM (sharded product enumeration), BFS (level-synchronous explicit-state search over API-call histories replayed on fresh real objects, canonical dedup, fixed-point detection), DEV (deviation-bounded); lock-step Python reference models as oracles; scenarios whose subject is what a PROCESS did before (class- / module-level state) are enumerated as differentials between fresh interpreters (vf/engine/fresh.py)")],
        checks=checks,
        notes="Genuine defects found and repaired are listed in /verif/known_findings.json (status fixed) with their 'fix:' commits in /repo. quick = every change (10-100 s per check on 16 cores), thorough = deeper bounds with the same technique.",
        not_applicable=na,
    )
    with open(os.path.join(HERE, "MANIFEST.json"), "w") as f:
        json.dump(man, f, indent=1)
        f.write("\n")
    print(f"claimed {len(checks)}: {[c['property_id'] for c in checks]}; not claimed {len(na)}")


if __name__ == "__main__":
    main()
