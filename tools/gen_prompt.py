#!/usr/bin/env python3
"""gen_prompt.py <round> <outdir> [IDs ...] — writes the sub-agent brief for every (given) property to <outdir>/prompt<round>_cNN.txt.

The brief holds: the text of one property (title, statement, quantifier), the scratch worktree to work in, the summaries of the
changes earlier sub-agents produced for that property (from seeded/*/meta.json — their own words, so nothing is repeated) and a
list of hints for kinds of defect not asked for before.  Nothing about the checks of /verif goes into it.
"""
import glob
import json
import os
import sys

HERE = os.path.dirname(os.path.dirname(os.path.abspath(__file__)))
TEMPLATE = open(os.path.join(HERE, "seeded", "prompts", "round1_template.txt")).read()

HINTS = {
    "7": (
        "Aim for defects that are HARD to expose and of a kind not tried yet (see the list above). Think about what a thorough tester of this "
        "property would most plausibly NOT have in their harness: an interaction with a feature that belongs to a different part of the simulator "
        "(the other ISA, the visualisation getters, the performance-metric text, the CLI-independent settings object), an operand or address that "
        "is legal but never written that way (negative, >= 2^32, a fixed-width integer object instead of an int, a bool), an order of calls that "
        "the public API allows but the GUI never produces, a state reached only after an error was raised and caught, a program or configuration "
        "of an unusual size (prime associativity, one-word memory, 4095 or 4096 instructions, a loop of several hundred iterations), or a value that "
        "is special to Python rather than to the architecture (hash collisions of -1 and -2, int/float conversion above 2^53, str.splitlines and "
        "str.isdigit on non-ASCII text, dict ordering, default arguments evaluated once). The defect must still clearly violate the property as "
        "stated, through its public observation points, and the full test suite must still pass. If you truly cannot find a second one of a new "
        "kind, deliver one and say so."
    ),
    "6": (
        "Aim for defects that are HARD to expose and of a kind not tried yet. The statement above has several clauses: pick the clause "
        "(or the secondary observable, or the corner of the quantified domain) that looks LEAST likely to be exercised by somebody "
        "testing this property, and break that one. Ideas: a defect that needs a LONG run before it shows (a counter, list or dict that "
        "has to reach a size or a value first: the 9th way, the 33rd access, the 17th instruction, a cycle count above 255, a program "
        "longer than 64 instructions, a loop executed more than a handful of times); one that needs TWO features switched on together "
        "(instruction cache AND data cache, pipeline mode AND a cache with a non-zero miss penalty, hazard detection off AND an ecall, "
        "a data segment AND self-referencing labels); one that depends on a specific register NUMBER or bit pattern (x16..x31 only, "
        "register numbers whose low bits coincide, immediates with exactly bit 11 set, addresses with bit 31 set, values equal to their "
        "own address); one keyed on Python-level equality or truthiness (0 vs None vs False, an empty list vs a missing one, `is` vs "
        "`==` on small ints vs big ints, -0, equal-but-not-identical objects); one that changes which EXCEPTION type or which error "
        "attribute (line number, address, message) comes out in a rare path; one that shows only when an operation is REPEATED with "
        "identical arguments (second identical store, the same program loaded twice, the same label referenced twice on one line's "
        "expansion), or when two DIFFERENT spellings of the same thing meet (x8/s0/fp, 0x10 vs 16, upper vs lower case, a label and a "
        "number for the same address); one that depends on the order of keyword/constructor options or on a default that is evaluated "
        "once; one that only shows for the smallest legal configuration (1 set, 1 way, 1 word per block, memory of minimal size, empty "
        "program, empty string) or the largest; one in a rarely used public entry point named by the property (run() as opposed to "
        "step(), the second phase of a two-phase step, a getter that is normally called once). They must still clearly violate the "
        "property as stated (not merely change internals), and the full test suite must still pass. If you truly cannot find a second "
        "one of a new kind, deliver one and say so."
    ),
}


def main():
    rnd, outdir = sys.argv[1], sys.argv[2]
    ids = sys.argv[3:]
    props = [json.loads(l) for l in open(os.path.join(HERE, "properties.jsonl")) if l.strip()]
    os.makedirs(outdir, exist_ok=True)
    for p in props:
        pid = p["id"]
        if ids and pid not in ids:
            continue
        wt = f"/tmp/wt/{pid.lower()}"
        text = f"Title: {p['title']}\n\nStatement: {p['statement']}\n\nQuantified over: {p['quantifier']['text']}\n"
        earlier = []
        for mf in sorted(glob.glob(os.path.join(HERE, "seeded", pid + "-*", "meta.json"))):
            m = json.load(open(mf))
            earlier.append(f"- {(m.get('summary') or '')[:420]}  [needed: {(m.get('needs') or '')[:300]}]")
        # changes of a round whose confirmation is still running (not in seeded/ yet): their own .json files in the worktree
        have = " ".join(earlier)
        for jf in sorted(glob.glob(os.path.join(wt, os.environ.get("EXTRA_OUT", "out-none"), "*.json"))):
            m = json.load(open(jf))
            if (m.get("summary") or "")[:80] not in have:
                earlier.append(f"- {(m.get('summary') or '')[:420]}  [needed: {(m.get('needs') or '')[:300]}]")
        extra = ""
        if earlier:
            extra = (f"\nThis is round {rnd}. In earlier rounds the following changes were already produced for this property — do NOT repeat them "
                     "or close variants of them (a different file/function or a clearly different mechanism is required):\n"
                     + "\n".join(earlier) + "\n\n" + HINTS.get(rnd, "") + "\n")
        out = f"out{rnd}"
        t = TEMPLATE.replace("__WT__", wt).replace("__PROP__", text + extra).replace("__ID__", pid)
        t = t.replace(f"{wt}/out/", f"{wt}/{out}/").replace("untracked out/ directory", f"untracked {out}/ directory")
        open(os.path.join(outdir, f"prompt{rnd}_{pid.lower()}.txt"), "w").write(t)
        print(pid, len(t))


if __name__ == "__main__":
    main()
