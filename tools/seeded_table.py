#!/venv/bin/python
"""Prints the markdown table of /verif/seeded/*/meta.json (used for DESIGN.md section 11.6)."""
import glob
import json
import os
import re

HERE = os.path.dirname(os.path.dirname(os.path.abspath(__file__)))
rows = []
for f in sorted(glob.glob(os.path.join(HERE, "seeded", "*", "meta.json"))):
    m = json.load(open(f))
    det = [c for c, r in m["checks_run"].items() if r["verdict"] == "DETECTED"]
    mis = [c for c, r in m["checks_run"].items() if r["verdict"] != "DETECTED"]
    needs = (m.get("needs") or "").replace("\n", " ").replace("|", "/")
    summ = (m.get("summary") or "").replace("\n", " ").replace("|", "/")
    hist = m.get("history", "") or ""
    strengthened = bool(hist)
    mm = re.match(r"round \d+\.( First run[^.]*: ([^.]*)\.)?(.*)$", hist, re.S)
    if mm:
        # later rounds record the first-run verdicts; "strengthened" = something had to change afterwards
        strengthened = bool(mm.group(3).strip())
    if "caught on the first run by the check as it stood" in hist and "a clause that executes" not in hist:
        strengthened = False
    rows.append(f"| `{os.path.basename(os.path.dirname(f))}` | {summ[:170]}{'…' if len(summ) > 170 else ''} | {needs[:150]}{'…' if len(needs) > 150 else ''} | {', '.join(det) or '–'} | {', '.join(mis) or '–'} | {'yes' if strengthened else ''} |")
print("| seeded change | what was changed | what it needs | caught by | also run, silent | strengthened for it |")
print("|---|---|---|---|---|---|")
print("\n".join(rows))
print(f"\n{len(rows)} seeded changes")
