#!/usr/bin/env python3
"""Prints the table of DESIGN.md section 11.4 from the evidence files of the last run of every check."""
import glob
import json
import os

HERE = os.path.dirname(os.path.dirname(os.path.abspath(__file__)))


def fmt(n):
    return f"{n:,}".replace(",", " ")


print("| check | tier / seed | evaluations | states / transitions | wall |")
print("|---|---|---|---|---|")
tot = 0
for f in sorted(glob.glob(os.path.join(HERE, "evidence", "C*.json"))):
    e = json.load(open(f))
    c = e["coverage"]
    st = c.get("states") or c.get("states_explored") or 0
    tr = c.get("transitions") or c.get("transitions_explored") or 0
    tot += e.get("wall_s", 0)
    print(f"| {e['property_id']} | {e['tier']} / {e['seed']} | {fmt(c['evaluations'])} | {(fmt(st) + ' / ' + fmt(tr)) if st else '–'} | {round(e.get('wall_s', 0))} s |")
print(f"\ntotal {round(tot / 60, 1)} min")
