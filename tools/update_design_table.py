#!/usr/bin/env python3
"""Replaces the seeded-changes table of DESIGN.md (section 11.6) by the output of tools/seeded_table.py."""
import os
import re
import subprocess

HERE = os.path.dirname(os.path.dirname(os.path.abspath(__file__)))
new = subprocess.run(["/venv/bin/python", os.path.join(HERE, "tools", "seeded_table.py")], capture_output=True, text=True).stdout.rstrip("\n")
p = os.path.join(HERE, "DESIGN.md")
s = open(p).read()
m = re.search(r"\| seeded change \| what was changed .*?\n\d+ seeded changes", s, re.S)
assert m, "table not found"
s = s[:m.start()] + new + s[m.end():]
open(p, "w").write(s)
print(new.splitlines()[-1])
