#!/bin/sh
# usage: run_some.sh <tier> <ID> [<ID> ...] — runs the given checks sequentially, one summary line each
TIER="$1"; shift
cd "$(dirname "$0")/.."
LOGDIR="${VF_LOGDIR:-$(mktemp -d /tmp/vf_run.XXXXXX)}"
echo "logs in $LOGDIR"
for ID in "$@"; do
  S=$(date +%s)
  ./check "$ID" "$TIER" > "$LOGDIR/$ID.log" 2>&1
  RC=$?
  echo "$ID rc=$RC $(( $(date +%s) - S ))s $(grep 'seed=' "$LOGDIR/$ID.log" | cut -c1-220)"
  grep -c "CAPPED\|state-cap\|time-cap" "$LOGDIR/$ID.log" | sed 's/^/   capped spaces: /'
done
