#!/bin/sh
# usage: run_all.sh [tier] — runs every check once, prints one line per check, validates the evidence files
TIER="${1:-quick}"
cd "$(dirname "$0")/.."
LOGDIR="${VF_LOGDIR:-$(mktemp -d /tmp/vf_run.XXXXXX)}"
echo "logs in $LOGDIR"
for i in 01 02 03 04 05 06 07 08 09 10 11 12 13 14 15 16 17 18 19 20; do
  S=$(date +%s)
  ./check C$i "$TIER" > $LOGDIR/C$i.log 2>&1
  RC=$?
  echo "C$i rc=$RC $(( $(date +%s) - S ))s $(grep 'seed=' $LOGDIR/C$i.log | cut -c1-200)"
done
python3-vt - <<'PY'
import json, jsonschema, glob
sch = json.load(open('/root/.vp/EVIDENCE.schema.json'))
for f in sorted(glob.glob('evidence/C*.json')):
    try:
        jsonschema.validate(json.load(open(f)), sch)
    except Exception as e:
        print('INVALID', f, str(e)[:200])
print('evidence validated')
PY
