#!/venv/bin/python
"""confirm_seeded.py <worktree out dir> <name> <target property> [<extra check IDs> ...]

Independently confirms a seeded property-breaking change produced in a scratch worktree:
  1. fresh scratch copy of /repo HEAD (git archive) under /tmp, apply <name>.diff
  2. the repository's own tests must still pass (242)
  3. <name>_demo.py must FAIL on the patched copy and PASS on an unpatched copy
  4. run the quick checks given (target property first) against the patched copy (VF_REPO)
and, if 1-3 hold, stores /verif/seeded/<PROP>-<name>/{patch.diff, demo.py, meta.json}.
"""
import json
import os
import shutil
import subprocess
import sys
import tempfile
import time

HERE = os.path.dirname(os.path.dirname(os.path.abspath(__file__)))


def sh(cmd, cwd=None, env=None, timeout=3000):
    e = dict(os.environ)
    if env:
        e.update(env)
    r = subprocess.run(cmd, shell=True, cwd=cwd, env=e, capture_output=True, text=True, timeout=timeout)
    return r.returncode, (r.stdout + r.stderr)


def main():
    out, name, prop = sys.argv[1:4]
    checks = [prop] + sys.argv[4:]
    diff = os.path.join(out, name + ".diff")
    demo = os.path.join(out, name + "_demo.py")
    metaf = os.path.join(out, name + ".json")
    meta = json.load(open(metaf)) if os.path.exists(metaf) else {}
    clean = tempfile.mkdtemp(prefix="vfseed_clean.", dir="/tmp")
    bad = tempfile.mkdtemp(prefix="vfseed_bad.", dir="/tmp")
    try:
        for d in (clean, bad):
            sh(f"git -C /repo archive HEAD | tar -x -C {d}")
        rc, o = sh(f"git apply --whitespace=nowarn {diff}", cwd=bad)
        if rc:
            # try patch -p1 as a fallback
            rc, o = sh(f"patch -p1 -s < {diff}", cwd=bad)
        if rc:
            print("PATCH-FAILED", o[-300:])
            return 3
        rc, o = sh("timeout 600 /venv/bin/python -m pytest -q -p no:cacheprovider tests 2>&1 | tail -2", cwd=bad, env={"PYTHONPATH": bad})
        tests_ok = " passed" in o and "failed" not in o and "error" not in o.lower().replace("0 errors", "")
        print("tests on patched copy:", o.strip().splitlines()[-1] if o.strip() else "?")
        rc_bad, o_bad = sh(f"timeout 300 /venv/bin/python {demo}", cwd=bad, env={"PYTHONPATH": bad})
        rc_ok, o_ok = sh(f"timeout 300 /venv/bin/python {demo}", cwd=clean, env={"PYTHONPATH": clean})
        print(f"demo on patched copy: rc={rc_bad} {o_bad.strip().splitlines()[-1][:120] if o_bad.strip() else ''}")
        print(f"demo on clean copy:   rc={rc_ok} {o_ok.strip().splitlines()[-1][:120] if o_ok.strip() else ''}")
        confirmed = tests_ok and rc_bad != 0 and rc_ok == 0
        results = {}
        for c in checks:
            t0 = time.time()
            rc, o = sh(f"timeout 2400 {HERE}/check {c} quick", env={"VF_REPO": bad, "VF_EVIDENCE_DIR": bad + "/ev", "VF_REPLAY_DIR": bad + "/rp"})
            first = next((l.strip() for l in o.splitlines() if l.strip().startswith("violation x")), "")
            verdict = "DETECTED" if rc == 1 and f"VIOLATION property={c}" in o else ("MISSED" if rc == 0 else f"ERROR rc={rc}")
            results[c] = dict(verdict=verdict, seconds=round(time.time() - t0), first_violation=first[:300])
            print(f"{verdict:9s} {c} ({results[c]['seconds']}s) {first[:200]}")
            if verdict.startswith("ERROR"):
                print(o[-400:])
        if confirmed:
            dst = os.path.join(HERE, "seeded", f"{prop}-{name}")
            os.makedirs(dst, exist_ok=True)
            shutil.copy(diff, os.path.join(dst, "patch.diff"))
            shutil.copy(demo, os.path.join(dst, "demo.py"))
            meta_out = dict(
                property=prop, name=name, summary=meta.get("summary"), needs=meta.get("needs"), files=meta.get("files"),
                author="independent sub-agent (saw only the property text and a scratch worktree)",
                confirmed=dict(tests_pass_with_change=tests_ok, demo_fails_with_change=rc_bad != 0, demo_passes_without=rc_ok == 0,
                               how="tools/confirm_seeded.py on fresh scratch copies of /repo HEAD outside /repo and /verif"),
                checks_run=results,
            )
            if os.environ.get("SEED_HISTORY"):
                meta_out["history"] = os.environ["SEED_HISTORY"]
            json.dump(meta_out, open(os.path.join(dst, "meta.json"), "w"), indent=1)
            print("KEPT", dst)
        else:
            print("NOT-CONFIRMED (tests_ok=%s demo_bad_rc=%s demo_clean_rc=%s)" % (tests_ok, rc_bad, rc_ok))
        return 0
    finally:
        shutil.rmtree(clean, ignore_errors=True)
        shutil.rmtree(bad, ignore_errors=True)


if __name__ == "__main__":
    sys.exit(main())
